#!/venv/bin/python
"""prints the DESIGN.md section-8 table from seeded/kill_matrix.json and the
short mechanism labels below"""
import json
import os

HERE = os.path.dirname(os.path.abspath(__file__))
LABEL = {
    "S-C20-d": "`path_jordan` inverts clockwise curves in place before drawing (the shape is changed by plotting)",
    "S-C01-a": "`Intersection.lines`: `denom != 0` → `abs(denom) > 1e-6` (millimetre exact polygons lose crossings)",
    "S-C01-b": "`JordanCurve.box()` cached, not reset by `move`",
    "S-C01-c": "`DivideConnecteds` groups by area only (island in a hole mis-nested)",
    "S-C01-d": "`_contains_jordan` samples only segment end- and mid-points (operators take the containment short-cut)",
    "S-C02-a": "`PlanarCurve.__contains__` compares squared distance with the unsquared tolerance",
    "S-C02-b": "`JordanCurve.box()` cached, not reset by `move`",
    "S-C02-c": "`ConnectedShape._contains_point` box quick-reject from the first subshape",
    "S-C02-d": "`JordanCurve.__float__` takes its sign from the shoelace of the segment end points",
    "S-C03-a": "`_contains_jordan` early exit when the boundaries do not meet",
    "S-C03-b": "`DefinedShape.box()` memoised; transformations of the jordans do not reset it",
    "S-C03-c": "`ConnectedShape._contains_shape` skips holes by bounding box",
    "S-C03-d": "`__contains_simple`: `areaA <= areaB and jordana in self` for two unbounded shapes",
    "S-C04-a": "`IntegrateJordan.vertical` memoised per exponent, not reset by `move`",
    "S-C04-b": "`IntegratePlanar.vertical` returns 0 for segments with an axis-parallel chord",
    "S-C04-c": "`IntegrateShape.polynomial` recurses into subshapes with |·|",
    "S-C04-d": "`IntegrateShape.area` default node count `1 + degree` (cubic areas under-integrated)",
    "S-C05-a": "`JordanCurve.box()` cached, not reset by `move`",
    "S-C05-b": "`FollowPath` drops closed paths of fewer than 3 pieces (two-arc lenses)",
    "S-C05-c": "`PlanarCurve.invert` only swaps first and last control point (wrong for degree ≥ 3)",
    "S-C05-d": "`midpoints_one_shape` returns one start segment per curve (components/holes dropped)",
    "S-C06-a": "`DivideConnecteds` seed selection by signed area",
    "S-C06-b": "`JordanCurve.split` de-duplicates parameters by exact equality only",
    "S-C06-c": "`DisjointShape.__invert__` wraps all inverted curves in one Connected",
    "S-C06-d": "`follow_path` drops `filter_rotations` (the same result curve several times)",
    "S-C07-a": "`JordanCurve.__eq__` rejects on control-point boxes",
    "S-C07-b": "`DisjointShape.__eq__` one-directional matching",
    "S-C07-c": "`JordanCurve.clean()` single pass (three pieces of one segment)",
    "S-C07-d": "`PlanarCurve.__or__` guesses the junction parameter from chords instead of control legs",
    "S-C08-a": "`JordanCurve.__deepcopy__` shares interior control points with the source",
    "S-C08-b": "`indexs_to_jordan` copies once at the end (pieces shared with operands)",
    "S-C08-c": "`__or__` fast path for apart boxes returns the operands themselves",
    "S-C08-d": "`SimpleShape.__init__` keeps the caller's `JordanCurve`",
    "S-C09-a": "`JordanCurve.vertices` de-duplicates by value (equal points moved once)",
    "S-C09-b": "`JordanCurve.box()` lazily cached, stale after `rotate`",
    "S-C09-c": "`SimpleShape` keeps the caller's `JordanCurve` (no copy)",
    "S-C09-d": "`move/scale/rotate` traverse `subshape.jordans[0]` only (holes of components stay)",
    "S-C10-a": "`scale` multiplies the cached signed length by the signed factor",
    "S-C10-b": "`DefinedShape.box()` memoised",
    "S-C10-c": "`__deepcopy__` of Connected/Disjoint is shallow (same SimpleShapes)",
    "S-C10-d": "`_contains_jordan` samples only pieces with a reported crossing (wrong once both operands are split)",
    "S-C11-a": "`__float__` stores the unsigned length before the area call (interrupt leaves a cw curve positive)",
    "S-C11-b": "`Point2D.scale` augmented assignment (x scaled before y validated)",
    "S-C11-c": "`__contains_simple` inverts operands in place and back",
    "S-C11-d": "`__split_segment` pops the segment and splices the pieces back (open curve in between)",
    "S-C12-a": "`JordanCurve.box()` cached, not reset by `move`",
    "S-C12-b": "`Point2D.__eq__` relative tolerance",
    "S-C12-c": "adaptive winding stops on the end-point box instead of the control-point box",
    "S-C12-d": "default node count `(a+b)*deg+1`: cubic areas under-integrated, rotation dependent",
    "S-C13-a": "`Intersection.lines` caps exact parameters at 1e9",
    "S-C13-b": "`Intersection.lines` float parallel test",
    "S-C13-c": "Gauss–Legendre floats above 8 nodes in rational integrals",
    "S-C13-d": "`Primitive.square`: `side / 2` on a raw int gives float vertices",
    "S-C14-a": "`Intersection.lines` `abs(denom) < 1e-6` ⇒ parallel",
    "S-C14-b": "memoised derivative curves, stale after in-place transformation",
    "S-C14-c": "box short-cut in `PlanarCurve.__and__` (zero-width box intersection)",
    "S-C14-d": "`intersection` culls segments by the box of the other curve's *end points*",
    "S-C15-a": "`BezierCurve.clean` tolerance scaled by control-point norm",
    "S-C15-b": "subdivision matrices memoised by value: float matrices reused for Fraction parameters",
    "S-C15-c": "`JordanCurve.split` compares a parameter only with the last one kept (unsorted repeats survive)",
    "S-C15-d": "`JordanCurve.clean` single linear pass (runs of 3+ pieces only paired up)",
    "S-C16-a": "`circle` ring not closed with the exact first point",
    "S-C16-b": "`regular_polygon` angles from `np.arange` (extra vertex for some n)",
    "S-C16-c": "`circle` validation `and` for `or`: ndivangle ≤ 3 accepted",
    "S-C16-d": "`Primitive.triangle` built by `move(center).scale(side)` (translation scaled too)",
    "S-C17-a": "`vertices` de-duplicated by value",
    "S-C17-b": "`from_full_curve` no longer cleans pieces",
    "S-C17-c": "orientation from the shoelace of control vertices",
    "S-C17-d": "`from_segments` no longer checks that consecutive segments meet",
    "S-C18-a": "`Math.comb` floor-divides the factor: wrong from n = 5",
    "S-C18-b": "`BezierCurve.eval` memoised coefficients stale after in-place moves",
    "S-C18-c": "`BezierCurve.split` de Casteljau rewrite: middle pieces cut at the un-normalised parameter",
    "S-C18-d": "`PlanarCurve.box()` from derivative roots; roots dropped when the leading coefficient vanishes",
    "S-C19-a": "`DisjointShape.__eq__` zip comparison",
    "S-C19-b": "`DisjointShape.__new__` recognises Empty by area < tolerance",
    "S-C19-c": "`ConnectedShape._contains_point` box quick-reject",
    "S-C19-d": "`DivideConnecteds` single pass: wrong grouping at four nesting levels",
    "S-C20-a": "fill-vs-hole from the sign of the whole shape's area",
    "S-C20-b": "outline snapping by 6 significant digits",
    "S-C20-c": "path code looked up once per curve from its first segment (mixed-degree curves)",
}
m = json.load(open(os.path.join(HERE, "seeded", "kill_matrix.json")))
print("| change | mechanism | own check | other checks run against it |")
print("|---|---|---|---|")
for sid in sorted(m):
    pid = sid[2:5]
    row = m[sid]
    own = row.get(pid)
    o = "caught, %d s" % own["wall_s"] if own and own["caught"] else "**missed**"
    others = ", ".join("%s %s" % (p, "✓" if r["caught"] else "✗") for p, r in sorted(row.items()) if p != pid)
    print("| %s | %s | %s | %s |" % (sid, LABEL.get(sid, ""), o, others or "—"))
