#!/bin/bash
# run every registered quick check at the given seeds; print one line per run
# usage: tools_sweep.sh "2 3 4" [tier] [props...]
seeds=${1:-"2 3"}; tier=${2:-quick}; shift; shift
props=${@:-C01 C02 C03 C04 C05 C06 C07 C08 C09 C10 C11 C12 C13 C14 C15 C16 C17 C18 C19 C20}
cd "$(dirname "$0")"
for s in $seeds; do
  for p in $props; do
    t0=$(date +%s)
    out=$(VERIF_SEED=$s timeout ${SWEEP_TIMEOUT:-3600} /venv/bin/python run_check.py $p --tier $tier 2>&1); rc=$?
    t1=$(date +%s)
    echo "seed=$s prop=$p rc=$rc wall=$((t1-t0))s $(echo "$out" | grep -c '^VIOLATION') violations"
    if [ $rc -ne 0 ]; then echo "$out" | grep -v KNOWN-FINDING | head -12 | cut -c1-400; fi
  done
done
