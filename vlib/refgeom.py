"""
Reference geometry used as oracle.  Pure Python, never imports shapepy.

Conventions
-----------
point   : tuple (x, y) of int / Fraction / float
segment : list of control points (Bezier, degree = len - 1, degree 1..6)
curve   : list of segments forming a closed chain (end of i == start of i+1)

Exact arithmetic (Fractions) is used whenever a predicate is evaluated on
polygons: floats are converted with Fraction(float), which is exact, so the
polygon predicates are exact statements about the given float values too.
Curved pieces are handled with de Casteljau subdivision in floats.
"""
from __future__ import annotations

import math
from fractions import Fraction as F

TAU = 2 * math.pi


# --------------------------------------------------------------------------
# numbers and points
# --------------------------------------------------------------------------
def is_exact(x) -> bool:
    return isinstance(x, (int, F)) and not isinstance(x, bool)


def ex(x) -> F:
    """exact Fraction of any real number (floats are converted exactly)"""
    if isinstance(x, F):
        return x
    if isinstance(x, int):
        return F(x)
    return F(float(x))


def exp(p):
    return (ex(p[0]), ex(p[1]))


def fl(p):
    return (float(p[0]), float(p[1]))


def sub(p, q):
    return (p[0] - q[0], p[1] - q[1])


def add(p, q):
    return (p[0] + q[0], p[1] + q[1])


def mul(p, s):
    return (p[0] * s, p[1] * s)


def cross(p, q):
    return p[0] * q[1] - p[1] * q[0]


def dot(p, q):
    return p[0] * q[0] + p[1] * q[1]


def norm(p) -> float:
    return math.hypot(float(p[0]), float(p[1]))


def dist(p, q) -> float:
    return math.hypot(float(p[0]) - float(q[0]), float(p[1]) - float(q[1]))


def comb(n, k):
    return math.comb(n, k)


# --------------------------------------------------------------------------
# Bezier basics (de Casteljau; independent of the library's monomial route)
# --------------------------------------------------------------------------
def bez_eval(ctrl, t):
    pts = list(ctrl)
    while len(pts) > 1:
        pts = [
            (a[0] + (b[0] - a[0]) * t, a[1] + (b[1] - a[1]) * t)
            for a, b in zip(pts[:-1], pts[1:])
        ]
    return pts[0]


def bez_split(ctrl, t):
    pts = list(ctrl)
    left = [pts[0]]
    right = [pts[-1]]
    while len(pts) > 1:
        pts = [
            (a[0] + (b[0] - a[0]) * t, a[1] + (b[1] - a[1]) * t)
            for a, b in zip(pts[:-1], pts[1:])
        ]
        left.append(pts[0])
        right.append(pts[-1])
    right.reverse()
    return left, right


def bez_sub(ctrl, t0, t1):
    """control points of the restriction to [t0, t1]"""
    if t0 == 0:
        piece = list(ctrl)
    else:
        _, piece = bez_split(ctrl, t0)
    if t1 == 1:
        return piece
    if t0 == 1:
        return piece
    s = (t1 - t0) / (1 - t0) if is_exact(t0) and is_exact(t1) else (
        float(t1) - float(t0)) / (1 - float(t0))
    left, _ = bez_split(piece, s)
    return left


def bez_deriv(ctrl):
    n = len(ctrl) - 1
    if n == 0:
        return [(0, 0)]
    return [
        ((b[0] - a[0]) * n, (b[1] - a[1]) * n)
        for a, b in zip(ctrl[:-1], ctrl[1:])
    ]


def bez_box(ctrl):
    xs = [p[0] for p in ctrl]
    ys = [p[1] for p in ctrl]
    return (min(xs), min(ys), max(xs), max(ys))


def bez_to_poly(vals):
    """Bernstein coefficients (scalars) -> monomial coefficients c[k] of t^k"""
    n = len(vals) - 1
    out = []
    for k in range(n + 1):
        acc = 0
        for i in range(k + 1):
            term = comb(k, i) * vals[i]
            acc = acc + term if (k - i) % 2 == 0 else acc - term
        out.append(comb(n, k) * acc)
    return out


def bernstein(n, i, t):
    return comb(n, i) * t**i * (1 - t) ** (n - i)


# polynomial helpers (coefficient lists, lowest degree first)
def pmul(a, b):
    out = [0] * (len(a) + len(b) - 1)
    for i, x in enumerate(a):
        if x == 0:
            continue
        for j, y in enumerate(b):
            out[i + j] = out[i + j] + x * y
    return out


def ppow(a, k):
    out = [1]
    for _ in range(k):
        out = pmul(out, a)
    return out


def pder(a):
    return [k * a[k] for k in range(1, len(a))] or [0]


def pint01(a, exact):
    total = F(0) if exact else 0.0
    for k, c in enumerate(a):
        total += (F(c) / (k + 1)) if exact else (float(c) / (k + 1))
    return total


# --------------------------------------------------------------------------
# curves
# --------------------------------------------------------------------------
def curve_is_exact(curve) -> bool:
    return all(is_exact(c) for seg in curve for p in seg for c in p)


def curve_is_polygon(curve) -> bool:
    return all(len(seg) == 2 for seg in curve)


def curve_vertices(curve):
    """polygon vertex list (start point of every segment)"""
    return [seg[0] for seg in curve]


def polygon_curve(verts):
    n = len(verts)
    return [[verts[i], verts[(i + 1) % n]] for i in range(n)]


def curve_box(curve):
    bx = [bez_box(seg) for seg in curve]
    return (
        min(b[0] for b in bx),
        min(b[1] for b in bx),
        max(b[2] for b in bx),
        max(b[3] for b in bx),
    )


def curve_size(curve) -> float:
    b = curve_box(curve)
    return max(float(b[2] - b[0]), float(b[3] - b[1]))


def curve_reverse(curve):
    return [list(reversed(seg)) for seg in reversed(curve)]


def curve_map(curve, fn):
    return [[fn(p) for p in seg] for seg in curve]


def curve_is_closed(curve, tol=0) -> bool:
    n = len(curve)
    for i in range(n):
        a = curve[i][-1]
        b = curve[(i + 1) % n][0]
        if tol == 0:
            if a[0] != b[0] or a[1] != b[1]:
                return False
        elif dist(a, b) > tol:
            return False
    return True


def curve_moment(curve, a=0, b=0):
    """
    integral of x^a y^b over the region enclosed by the curve, signed by
    orientation (ccw positive):  1/(a+1) * contour integral x^(a+1) y^b dy.
    Exact (Fraction) when all control points are int/Fraction.
    """
    exact = curve_is_exact(curve)
    total = F(0) if exact else 0.0
    for seg in curve:
        xs = [ex(p[0]) if exact else float(p[0]) for p in seg]
        ys = [ex(p[1]) if exact else float(p[1]) for p in seg]
        px = bez_to_poly(xs)
        py = bez_to_poly(ys)
        integrand = pmul(pmul(ppow(px, a + 1), ppow(py, b)), pder(py))
        total += pint01(integrand, exact)
    return total / (a + 1)


def curve_area(curve):
    return curve_moment(curve, 0, 0)


def polygon_moment_fan(verts, a, b):
    """
    independent formula: fan triangulation from the origin;
    integral over triangle (0,p,q) of x^a y^b
      = det(p,q) * sum_{i,j} C(a,i) C(b,j) px^(a-i) qx^i py^(b-j) qy^j
                  * (a+b-i-j)! (i+j)! / (a+b+2)!
    """
    verts = [exp(v) for v in verts]
    total = F(0)
    n = len(verts)
    fact = math.factorial
    for k in range(n):
        p = verts[k]
        q = verts[(k + 1) % n]
        det = cross(p, q)
        if det == 0:
            continue
        acc = F(0)
        for i in range(a + 1):
            for j in range(b + 1):
                acc += (
                    comb(a, i)
                    * comb(b, j)
                    * p[0] ** (a - i)
                    * q[0] ** i
                    * p[1] ** (b - j)
                    * q[1] ** j
                    * fact(a + b - i - j)
                    * fact(i + j)
                )
        total += det * acc / fact(a + b + 2)
    return total


# --------------------------------------------------------------------------
# exact polygon predicates
# --------------------------------------------------------------------------
def orient(a, b, c):
    return (b[0] - a[0]) * (c[1] - a[1]) - (b[1] - a[1]) * (c[0] - a[0])


def point_on_segment_exact(a, b, p) -> bool:
    """a, b, p exact points"""
    if orient(a, b, p) != 0:
        return False
    return (
        min(a[0], b[0]) <= p[0] <= max(a[0], b[0])
        and min(a[1], b[1]) <= p[1] <= max(a[1], b[1])
    )


def polygon_winding_exact(verts, p):
    """
    (winding number, on_boundary) of a closed polygon about p, exact.
    verts and p are converted to Fractions.
    """
    verts = [exp(v) for v in verts]
    p = exp(p)
    wn = 0
    n = len(verts)
    for i in range(n):
        a = verts[i]
        b = verts[(i + 1) % n]
        if point_on_segment_exact(a, b, p):
            return 0, True
        if a[1] <= p[1]:
            if b[1] > p[1] and orient(a, b, p) > 0:
                wn += 1
        else:
            if b[1] <= p[1] and orient(a, b, p) < 0:
                wn -= 1
    return wn, False


def segments_intersect_exact(a, b, c, d):
    """
    classification of the intersection of closed segments ab and cd (exact
    points).  Returns
      None                          no common point
      ('point', t, u, p)            exactly one common point
      ('overlap', (t0,t1),(u0,u1))  collinear with a common sub-segment
    """
    r = sub(b, a)
    s = sub(d, c)
    denom = cross(r, s)
    qp = sub(c, a)
    if denom != 0:
        t = F(cross(qp, s)) / denom
        u = F(cross(qp, r)) / denom
        if 0 <= t <= 1 and 0 <= u <= 1:
            return ("point", t, u, (a[0] + r[0] * t, a[1] + r[1] * t))
        return None
    if cross(qp, r) != 0:
        return None
    rr = dot(r, r)
    if rr == 0:
        return None
    t0 = F(dot(qp, r)) / rr
    t1 = F(dot(sub(d, a), r)) / rr
    lo, hi = (t0, t1) if t0 <= t1 else (t1, t0)
    lo2, hi2 = max(lo, F(0)), min(hi, F(1))
    if lo2 > hi2:
        return None
    ss = dot(s, s)

    def uof(t):
        pt = (a[0] + r[0] * t, a[1] + r[1] * t)
        return F(dot(sub(pt, c), s)) / ss

    if lo2 == hi2:
        p = (a[0] + r[0] * lo2, a[1] + r[1] * lo2)
        return ("point", lo2, uof(lo2), p)
    return ("overlap", (lo2, hi2), (uof(lo2), uof(hi2)))


def polygon_is_simple(verts) -> bool:
    """no two non-adjacent edges meet; adjacent ones only at the junction"""
    verts = [exp(v) for v in verts]
    n = len(verts)
    if n < 3:
        return False
    for i in range(n):
        if verts[i] == verts[(i + 1) % n]:
            return False
    for i in range(n):
        a, b = verts[i], verts[(i + 1) % n]
        for j in range(i + 1, n):
            c, d = verts[j], verts[(j + 1) % n]
            res = segments_intersect_exact(a, b, c, d)
            if res is None:
                continue
            adjacent = j == i + 1 or (i == 0 and j == n - 1)
            if not adjacent:
                return False
            if res[0] != "point":
                return False
            # adjacent: the only common point must be the shared vertex
            shared = b if j == i + 1 else a
            if res[3] != shared:
                return False
    return True


# --------------------------------------------------------------------------
# winding number of general curves (subdivision until the point leaves the
# control box; then the chord subtends the same angle as the arc)
# --------------------------------------------------------------------------
def _chord_angle(a, b, p):
    ax, ay = float(a[0]) - p[0], float(a[1]) - p[1]
    bx, by = float(b[0]) - p[0], float(b[1]) - p[1]
    return math.atan2(ax * by - ay * bx, ax * bx + ay * by)


def seg_angle(ctrl, p, depth=0):
    """angle (radians) subtended by the Bezier segment seen from p (floats)"""
    if len(ctrl) == 2:
        return _chord_angle(ctrl[0], ctrl[1], p)
    xs = [q[0] for q in ctrl]
    ys = [q[1] for q in ctrl]
    if (
        p[0] < min(xs)
        or p[0] > max(xs)
        or p[1] < min(ys)
        or p[1] > max(ys)
        or depth > 60
    ):
        return _chord_angle(ctrl[0], ctrl[-1], p)
    left, right = bez_split(ctrl, 0.5)
    return seg_angle(left, p, depth + 1) + seg_angle(right, p, depth + 1)


def curve_winding(curve, p):
    """
    winding number (int) of a closed curve about p.  Exact for polygons;
    for curves p must not be on (or within rounding of) the curve.
    """
    if curve_is_polygon(curve):
        wn, on = polygon_winding_exact(curve_vertices(curve), p)
        return wn
    pf = fl(p)
    total = 0.0
    for seg in curve:
        total += seg_angle([fl(q) for q in seg], pf)
    return round(total / TAU)


# --------------------------------------------------------------------------
# distance from a point to a segment / curve
# --------------------------------------------------------------------------
def _dist_point_line_seg(a, b, p):
    ax, ay = a
    bx, by = b
    dx, dy = bx - ax, by - ay
    den = dx * dx + dy * dy
    if den == 0:
        return math.hypot(p[0] - ax, p[1] - ay)
    t = ((p[0] - ax) * dx + (p[1] - ay) * dy) / den
    t = 0.0 if t < 0 else (1.0 if t > 1 else t)
    return math.hypot(p[0] - ax - t * dx, p[1] - ay - t * dy)


def _box_dist(ctrl, p):
    xs = [q[0] for q in ctrl]
    ys = [q[1] for q in ctrl]
    dx = max(min(xs) - p[0], 0.0, p[0] - max(xs))
    dy = max(min(ys) - p[1], 0.0, p[1] - max(ys))
    return math.hypot(dx, dy)


def _flatness(ctrl):
    a, b = ctrl[0], ctrl[-1]
    worst = 0.0
    for q in ctrl[1:-1]:
        d = _dist_point_line_seg(a, b, q)
        if d > worst:
            worst = d
    return worst


def seg_dist(ctrl, p, best=float("inf"), tol=1e-10, depth=0):
    """distance from p to the Bezier segment (float, branch and bound)"""
    if len(ctrl) == 2:
        return min(best, _dist_point_line_seg(ctrl[0], ctrl[1], p))
    if _box_dist(ctrl, p) >= best:
        return best
    if _flatness(ctrl) <= tol or depth > 40:
        return min(best, _dist_point_line_seg(ctrl[0], ctrl[-1], p))
    left, right = bez_split(ctrl, 0.5)
    # visit the nearer half first
    dl = _box_dist(left, p)
    dr = _box_dist(right, p)
    if dl <= dr:
        best = seg_dist(left, p, best, tol, depth + 1)
        best = seg_dist(right, p, best, tol, depth + 1)
    else:
        best = seg_dist(right, p, best, tol, depth + 1)
        best = seg_dist(left, p, best, tol, depth + 1)
    return best


def seg_clear(ctrl, p, margin, depth=0) -> bool:
    """True iff every point of the segment is at least `margin` from p
    (floats; conservative by the flatness of the accepted chords)"""
    if _box_dist(ctrl, p) >= margin:
        return True
    if len(ctrl) == 2:
        return _dist_point_line_seg(ctrl[0], ctrl[1], p) >= margin
    fl_ = _flatness(ctrl)
    if fl_ <= margin / 8 or depth > 50:
        return _dist_point_line_seg(ctrl[0], ctrl[-1], p) - fl_ >= margin
    left, right = bez_split(ctrl, 0.5)
    return seg_clear(left, p, margin, depth + 1) and seg_clear(right, p, margin, depth + 1)


def curve_clear(curve, p, margin) -> bool:
    pf = fl(p)
    for seg in curve:
        if not seg_clear([fl(q) for q in seg], pf, margin):
            return False
    return True


def curve_dist(curve, p) -> float:
    pf = fl(p)
    best = float("inf")
    for seg in curve:
        best = seg_dist([fl(q) for q in seg], pf, best)
    return best


# --------------------------------------------------------------------------
# crossings between segments / curves
# --------------------------------------------------------------------------
class Degenerate(Exception):
    """the pair touches / overlaps so that crossings are not isolated"""


def _boxes_overlap(a, b, pad=0.0):
    return not (
        a[2] + pad < b[0] or b[2] + pad < a[0] or a[3] + pad < b[1]
        or b[3] + pad < a[1]
    )


def _line_line_float(a0, a1, b0, b1):
    r = (a1[0] - a0[0], a1[1] - a0[1])
    s = (b1[0] - b0[0], b1[1] - b0[1])
    den = r[0] * s[1] - r[1] * s[0]
    if den == 0:
        return None
    qp = (b0[0] - a0[0], b0[1] - a0[1])
    t = (qp[0] * s[1] - qp[1] * s[0]) / den
    u = (qp[0] * r[1] - qp[1] * r[0]) / den
    return t, u


def _polish(A, B, t, u):
    """Newton on A(t) - B(u) = 0 (floats).  Returns (t, u, residual, sin)"""
    dA = bez_deriv(A)
    dB = bez_deriv(B)
    for _ in range(30):
        pa = bez_eval(A, t)
        pb = bez_eval(B, u)
        fx, fy = pa[0] - pb[0], pa[1] - pb[1]
        da = bez_eval(dA, t)
        db = bez_eval(dB, u)
        det = -da[0] * db[1] + da[1] * db[0]
        if det == 0:
            break
        # [da, -db] [dt, du]^T = -f
        dt = (-fx * (-db[1]) - (-db[0]) * (-fy)) / det
        du = (da[0] * (-fy) - da[1] * (-fx)) / det
        t += dt
        u += du
        if abs(dt) + abs(du) < 1e-16:
            break
    pa = bez_eval(A, t)
    pb = bez_eval(B, u)
    res = math.hypot(pa[0] - pb[0], pa[1] - pb[1])
    da = bez_eval(dA, t)
    db = bez_eval(dB, u)
    na, nb = math.hypot(*da), math.hypot(*db)
    sin = abs(da[0] * db[1] - da[1] * db[0]) / (na * nb) if na and nb else 0.0
    return t, u, res, sin, na, nb


def seg_seg_crossings(A, B, budget=None):
    """
    all common points of two Bezier segments, as list of dicts
      {t, u, p, sin, da, db}
    Line/line pairs are solved exactly (Fractions in, Fractions out).
    Collinear overlap of two lines or a non-isolated contact raises
    Degenerate.  Otherwise float subdivision + Newton polish.
    """
    if len(A) == 2 and len(B) == 2:
        a, b, c, d = exp(A[0]), exp(A[1]), exp(B[0]), exp(B[1])
        res = segments_intersect_exact(a, b, c, d)
        if res is None:
            return []
        if res[0] == "overlap":
            raise Degenerate("collinear overlap")
        _, t, u, p = res
        r = fl(sub(b, a))
        s = fl(sub(d, c))
        na, nb = math.hypot(*r), math.hypot(*s)
        sin = abs(r[0] * s[1] - r[1] * s[0]) / (na * nb)
        return [dict(t=t, u=u, p=p, sin=sin, da=na, db=nb)]
    Af = [fl(p) for p in A]
    Bf = [fl(p) for p in B]
    size = max(
        max(abs(c) for p in Af for c in p), max(abs(c) for p in Bf for c in p),
        1e-300,
    )
    ext = max(
        bez_box(Af)[2] - bez_box(Af)[0], bez_box(Af)[3] - bez_box(Af)[1],
        bez_box(Bf)[2] - bez_box(Bf)[0], bez_box(Bf)[3] - bez_box(Bf)[1],
    )
    tol = 1e-7 * max(ext, 1e-300)
    found = []
    counter = [0]
    limit = budget or 40000

    def rec(a, ta0, ta1, b, tb0, tb1, depth):
        counter[0] += 1
        if counter[0] > limit:
            raise Degenerate("subdivision budget exhausted")
        ba, bb = bez_box(a), bez_box(b)
        if not _boxes_overlap(ba, bb, pad=1e-12 * size):
            return
        fa = _flatness(a) if len(a) > 2 else 0.0
        fb = _flatness(b) if len(b) > 2 else 0.0
        if (fa <= tol and fb <= tol) or depth > 48:
            hit = _line_line_float(a[0], a[-1], b[0], b[-1])
            if hit is None:
                # parallel chords with overlapping boxes: use midpoints
                hit = (0.5, 0.5)
            lt, lu = hit
            if -0.5 <= lt <= 1.5 and -0.5 <= lu <= 1.5:
                found.append(
                    (ta0 + (ta1 - ta0) * min(1, max(0, lt)),
                     tb0 + (tb1 - tb0) * min(1, max(0, lu)))
                )
            return
        if fa >= fb:
            l, r = bez_split(a, 0.5)
            tm = (ta0 + ta1) / 2
            rec(l, ta0, tm, b, tb0, tb1, depth + 1)
            rec(r, tm, ta1, b, tb0, tb1, depth + 1)
        else:
            l, r = bez_split(b, 0.5)
            tm = (tb0 + tb1) / 2
            rec(a, ta0, ta1, l, tb0, tm, depth + 1)
            rec(a, ta0, ta1, r, tm, tb1, depth + 1)

    rec(Af, 0.0, 1.0, Bf, 0.0, 1.0, 0)
    out = []
    for t0, u0 in found:
        t, u, res, sin, na, nb = _polish(Af, Bf, t0, u0)
        if res > 1e-9 * max(ext, 1.0):
            # candidate that does not converge to a common point: either no
            # crossing (boxes overlapped only) or a grazing contact
            if sin < 1e-6:
                continue
            continue
        if t < -1e-9 or t > 1 + 1e-9 or u < -1e-9 or u > 1 + 1e-9:
            continue
        t = min(1.0, max(0.0, t))
        u = min(1.0, max(0.0, u))
        dup = False
        for o in out:
            if abs(o["t"] - t) < 1e-7 and abs(o["u"] - u) < 1e-7:
                dup = True
                break
        if dup:
            continue
        out.append(dict(t=t, u=u, p=bez_eval(Af, t), sin=sin, da=na, db=nb))
    out.sort(key=lambda d: (d["t"], d["u"]))
    return out


def curve_curve_crossings(CA, CB):
    """list of dicts {a, b, t, u, p, sin, da, db} over all segment pairs"""
    out = []
    boxesB = [bez_box([fl(p) for p in s]) for s in CB]
    for i, sa in enumerate(CA):
        ba = bez_box([fl(p) for p in sa])
        for j, sb in enumerate(CB):
            if not _boxes_overlap(ba, boxesB[j], pad=1e-12):
                continue
            for c in seg_seg_crossings(sa, sb):
                c = dict(c)
                c["a"] = i
                c["b"] = j
                out.append(c)
    return out


def distinct_crossing_points(crossings, tol=1e-9):
    pts = []
    for c in crossings:
        p = fl(c["p"])
        if not any(dist(p, q) <= tol for q in pts):
            pts.append(p)
    return pts


# --------------------------------------------------------------------------
# regions: boolean expressions over oriented closed curves
# --------------------------------------------------------------------------
class Region:
    """
    A region of the plane given as a boolean expression over atoms.
    An atom is a closed simple curve; ccw denotes its interior, cw the
    exterior (complement of the interior), as in the library's SimpleShape.
      ('atom', curve) ('empty',) ('whole',) ('not', r) ('or', r, s)
      ('and', r, s) ('sub', r, s) ('xor', r, s)
    """

    def __init__(self, node):
        self.node = node

    # constructors
    @staticmethod
    def atom(curve):
        return Region(("atom", curve if isinstance(curve, Atom) else Atom(curve)))

    @staticmethod
    def empty():
        return Region(("empty",))

    @staticmethod
    def whole():
        return Region(("whole",))

    def __invert__(self):
        return Region(("not", self))

    def __or__(self, o):
        return Region(("or", self, o))

    def __and__(self, o):
        return Region(("and", self, o))

    def __sub__(self, o):
        return Region(("sub", self, o))

    def __xor__(self, o):
        return Region(("xor", self, o))

    def atoms(self):
        """the Atom objects (use .curve for the raw control points)"""
        n = self.node
        if n[0] == "atom":
            return [n[1]]
        out = []
        for ch in n[1:]:
            if isinstance(ch, Region):
                out += ch.atoms()
        return out

    def contains(self, p) -> bool:
        """membership of a point that is not on any atom boundary"""
        n = self.node
        k = n[0]
        if k == "atom":
            return atom_contains(n[1], p)
        if k == "empty":
            return False
        if k == "whole":
            return True
        if k == "not":
            return not n[1].contains(p)
        a = n[1].contains(p)
        b = n[2].contains(p)
        if k == "or":
            return a or b
        if k == "and":
            return a and b
        if k == "sub":
            return a and not b
        if k == "xor":
            return a != b
        raise ValueError(k)

    def boundary_dist(self, p) -> float:
        ats = self.atoms()
        if not ats:
            return float("inf")
        return min(curve_dist(c.curve, p) for c in ats)

    def clear(self, p, margin) -> bool:
        """p is at least `margin` away from every atom boundary"""
        return all(a.clear(p, margin) for a in self.atoms())

    def map(self, fn):
        n = self.node
        if n[0] == "atom":
            return Region(("atom", Atom(curve_map(n[1].curve, fn))))
        return Region(
            (n[0],) + tuple(ch.map(fn) if isinstance(ch, Region) else ch
                            for ch in n[1:])
        )

    def moment(self, a=0, b=0):
        """
        integral of x^a y^b with the library's convention (unbounded = minus
        complement, whole = 0) -- only for expressions that are a *disjoint
        sum* known by construction: atoms, not, and 'sum'/'diff' nodes built
        by the generators through `Measure`.
        """
        raise NotImplementedError


class Atom:
    """closed curve with cached float control points, box and orientation"""

    def __init__(self, curve):
        self.curve = [[(q[0], q[1]) for q in seg] for seg in curve]
        self.fcurve = [[fl(q) for q in seg] for seg in self.curve]
        self.polygon = curve_is_polygon(self.curve)
        self.verts = [exp(v) for v in curve_vertices(self.curve)] if self.polygon else None
        self.box = curve_box(self.fcurve)
        self.area = curve_area(self.curve)
        self.ccw = self.area > 0

    def winding(self, p):
        if p[0] < self.box[0] or p[0] > self.box[2] or p[1] < self.box[1] or p[1] > self.box[3]:
            return 0
        if self.polygon:
            return polygon_winding_exact(self.verts, p)[0]
        pf = fl(p)
        total = 0.0
        for seg in self.fcurve:
            total += seg_angle(seg, pf)
        return round(total / TAU)

    def contains(self, p):
        w = self.winding(p)
        return w == 1 if self.ccw else w == 0

    def clear(self, p, margin):
        pf = fl(p)
        if _box_dist([(self.box[0], self.box[1]), (self.box[2], self.box[3])], pf) >= margin:
            return True
        for seg in self.fcurve:
            if not seg_clear(seg, pf, margin):
                return False
        return True


def atom_contains(curve, p) -> bool:
    """ccw: inside; cw: outside (p off the boundary)"""
    if not isinstance(curve, Atom):
        curve = Atom(curve)
    return curve.contains(p)


def curves_region_value(curves, p):
    """sum of winding numbers of the given closed curves about p"""
    return sum(curve_winding(c, p) for c in curves)


def curves_relation(A, B, margin=0.0):
    """
    relation of two simple closed curves (orientation ignored):
      'touch'    they meet (or, for curved data, come closer than margin)
      'A_in_B'   A lies inside the bounded region of B
      'B_in_A'
      'apart'    bounded regions are disjoint
    Exact for polygons (margin ignored); for curves: crossing finder plus
    sampled clearance.
    """
    if curve_is_polygon(A) and curve_is_polygon(B):
        ea = [(exp(s[0]), exp(s[1])) for s in A]
        eb = [(exp(s[0]), exp(s[1])) for s in B]
        ba, bb = curve_box(A), curve_box(B)
        if _boxes_overlap(ba, bb):
            for (a, b) in ea:
                for (c, d) in eb:
                    if segments_intersect_exact(a, b, c, d) is not None:
                        return "touch"
    else:
        try:
            if curve_curve_crossings(A, B):
                return "touch"
        except Degenerate:
            return "touch"
        if margin > 0:
            for X, Y in ((A, B), (B, A)):
                for seg in X:
                    sf = [fl(q) for q in seg]
                    for k in range(8):
                        if not curve_clear(Y, bez_eval(sf, k / 8.0), margin):
                            return "touch"
    wa = abs(curve_winding(B, A[0][0]))
    wb = abs(curve_winding(A, B[0][0]))
    if wa == 1:
        return "A_in_B"
    if wb == 1:
        return "B_in_A"
    return "apart"


# --------------------------------------------------------------------------
# witness points: one point on each side of every boundary piece after the
# boundaries were cut at their mutual crossings
# --------------------------------------------------------------------------
def _piece_params(curves, ci, si):
    """sorted parameters at which segment si of curve ci meets other segs"""
    seg = curves[ci][si]
    ts = {F(0), F(1)} if all(is_exact(c) for p in seg for c in p) else {0.0, 1.0}
    for cj, other in enumerate(curves):
        for sj, oseg in enumerate(other):
            if cj == ci and sj == si:
                continue
            try:
                cr = seg_seg_crossings(seg, oseg)
            except Degenerate:
                if len(seg) == 2 and len(oseg) == 2:
                    res = segments_intersect_exact(
                        exp(seg[0]), exp(seg[1]), exp(oseg[0]), exp(oseg[1])
                    )
                    if res and res[0] == "overlap":
                        ts.add(res[1][0])
                        ts.add(res[1][1])
                continue
            for c in cr:
                ts.add(c["t"])
    return sorted(ts, key=float)


def witness_points(curves, max_per_seg=8):
    """
    list of (point, exact_flag) near the middle of every boundary piece, one
    on each side.  For polygons the offset is halved until the offset segment
    meets no edge (exact test), so the witness lies in the face adjacent to
    the piece.  For curved pieces eps = 1e-6 * size and the witness is kept
    only when it is >= eps/4 away from every curve.
    """
    all_poly = all(curve_is_polygon(c) for c in curves)
    size = max(curve_size(c) for c in curves) or 1.0
    out = []
    edges = None
    if all_poly:
        edges = [
            (exp(s[0]), exp(s[1])) for c in curves for s in c
        ]
    for ci, curve in enumerate(curves):
        for si, seg in enumerate(curve):
            ts = _piece_params(curves, ci, si)
            pieces = list(zip(ts[:-1], ts[1:]))
            if len(pieces) > max_per_seg:
                step = len(pieces) / max_per_seg
                pieces = [pieces[int(k * step)] for k in range(max_per_seg)]
            for t0, t1 in pieces:
                if float(t1) - float(t0) <= 0:
                    continue
                if all_poly:
                    a, b = exp(seg[0]), exp(seg[1])
                    tm = (ex(t0) + ex(t1)) / 2
                    m = (a[0] + (b[0] - a[0]) * tm, a[1] + (b[1] - a[1]) * tm)
                    nrm = (b[1] - a[1], -(b[0] - a[0]))
                    for sign in (1, -1):
                        eps = F(sign, 4)
                        for _ in range(200):
                            w = (m[0] + nrm[0] * eps, m[1] + nrm[1] * eps)
                            ok = True
                            for (c, d) in edges:
                                if c == a and d == b:
                                    continue
                                if segments_intersect_exact(m, w, c, d):
                                    ok = False
                                    break
                            if ok:
                                out.append(w)
                                break
                            eps /= 2
                else:
                    sf = [fl(p) for p in seg]
                    tm = (float(t0) + float(t1)) / 2
                    m = bez_eval(sf, tm)
                    d = bez_eval(bez_deriv(sf), tm)
                    nd = math.hypot(*d)
                    if nd == 0:
                        continue
                    nrm = (d[1] / nd, -d[0] / nd)
                    eps = 1e-6 * size
                    for sign in (1, -1):
                        w = (m[0] + sign * eps * nrm[0],
                             m[1] + sign * eps * nrm[1])
                        if min(curve_dist(c, w) for c in curves) >= eps / 4:
                            out.append(w)
    return out


# --------------------------------------------------------------------------
# self tests of the reference (run at the start of every check)
# --------------------------------------------------------------------------
def selftest():
    sq = [(0, 0), (2, 0), (2, 2), (0, 2)]
    csq = polygon_curve(sq)
    assert curve_area(csq) == 4
    assert curve_moment(csq, 1, 0) == 4 and curve_moment(csq, 0, 2) == F(16, 3)
    assert curve_area(curve_reverse(csq)) == -4
    tri = [(1, 1), (5, 2), (2, 7)]
    for a in range(4):
        for b in range(4):
            assert curve_moment(polygon_curve(tri), a, b) == polygon_moment_fan(
                tri, a, b
            )
    lsh = [(0, 0), (3, 0), (3, 1), (1, 1), (1, 3), (0, 3)]
    assert curve_area(polygon_curve(lsh)) == 5
    assert polygon_is_simple(lsh) and not polygon_is_simple(
        [(0, 0), (2, 2), (2, 0), (0, 2)]
    )
    assert polygon_winding_exact(lsh, (F(1, 2), F(1, 2))) == (1, False)
    assert polygon_winding_exact(lsh, (2, 2)) == (0, False)
    assert polygon_winding_exact(lsh, (1, 2)) == (0, True)
    assert polygon_winding_exact(list(reversed(lsh)), (F(1, 2), 2)) == (-1, False)
    # quadratic "circle" of n arcs: closed-form area, membership by subdivision
    n, r = 4, 1.0
    h = math.tan(math.pi / n)
    circ = []
    for k in range(n):
        a0 = TAU * k / n
        a1 = TAU * (k + 1) / n
        am = (a0 + a1) / 2
        rm = r / math.cos(math.pi / n)
        circ.append(
            [
                (r * math.cos(a0), r * math.sin(a0)),
                (rm * math.cos(am), rm * math.sin(am)),
                (r * math.cos(a1), r * math.sin(a1)),
            ]
        )
    assert abs(curve_area(circ) - 10.0 / 3.0) < 1e-12
    assert curve_winding(circ, (0.74, 0.74)) == 1  # between chord and arc
    assert curve_winding(circ, (0.78, 0.78)) == 0
    assert abs(curve_dist(circ, (0.0, 0.0)) - 1.0) < 1e-9
    # subdivision winding agrees with crossing number on polygons written
    # as degree-elevated curves
    elev = [[s[0], ((s[0][0] + s[1][0]) / 2, (s[0][1] + s[1][1]) / 2), s[1]]
            for s in polygon_curve([(0.0, 0.0), (3.0, 0.0), (3.0, 1.0),
                                    (1.0, 1.0), (1.0, 3.0), (0.0, 3.0)])]
    for p in [(0.5, 0.5), (2, 2), (0.5, 2.5), (-1, 1), (2.5, 0.5)]:
        assert curve_winding(elev, p) == polygon_winding_exact(lsh, p)[0]
    # crossing finder: exact lines, and a line against a parabola
    cr = seg_seg_crossings([(0, 0), (2, 2)], [(0, 2), (2, 0)])
    assert len(cr) == 1 and cr[0]["t"] == F(1, 2) and cr[0]["p"] == (1, 1)
    para = [(-1.0, 1.0), (0.0, -1.0), (1.0, 1.0)]  # y = x^2 on [-1,1]
    cr = seg_seg_crossings(para, [(-2.0, 0.25), (2.0, 0.25)])
    assert len(cr) == 2
    assert abs(cr[0]["p"][0] + 0.5) < 1e-9 and abs(cr[1]["p"][0] - 0.5) < 1e-9
    cr = seg_seg_crossings(para, [(-2.0, -0.5), (2.0, -0.5)])
    assert cr == []
    # cubic vs cubic
    c1 = [(0.0, 0.0), (1.0, 2.0), (2.0, -2.0), (3.0, 0.0)]
    c2 = [(0.0, 0.3), (3.0, -0.35)]
    cr = seg_seg_crossings(c1, c2)
    assert len(cr) == 3, cr
    # witnesses
    w = witness_points([csq, polygon_curve([(1, 1), (3, 1), (3, 3), (1, 3)])])
    assert len(w) == 2 * 12
    return True


if __name__ == "__main__":
    selftest()
    print("refgeom selftest ok")
