"""
Fault injection with sys.settrace: raise a BaseException subclass at the
first line of the k-th Python call made inside shapepy / pynurbs while an
operation runs -- the way a KeyboardInterrupt or a pytest-timeout surfaces.
No hook in the repository is needed.
"""
from __future__ import annotations

import sys


class Injected(BaseException):
    """the injected interrupt"""


WINDOW_FUNCS = {"invert", "split", "_JordanCurve__split_segment", "clean", "segments", "move", "scale", "rotate",
                "_SimpleShape__set_jordancurve", "_contains_shape", "subshapes"}


def _ours(filename: str) -> bool:
    return ("shapepy" in filename or "pynurbs" in filename) and "/verif/" not in filename


def dry_run(fn):
    """returns (number of call events, sorted list of call indices that fall
    inside the dynamic extent of an in-place mutation of library objects,
    the function's result or exception)"""
    count = [0]
    depth = [0]
    window = []

    def tracer(frame, event, arg):
        if event != "call":
            return None
        code = frame.f_code
        if not _ours(code.co_filename):
            return None
        count[0] += 1
        if depth[0] > 0:
            window.append(count[0])
        if code.co_name in WINDOW_FUNCS:
            depth[0] += 1
            window.append(count[0])

            def local(frame, event, arg):
                if event == "return":
                    depth[0] -= 1
                return local

            return local
        return None

    old = sys.gettrace()
    sys.settrace(tracer)
    try:
        try:
            res = ("ok", fn())
        except BaseException as exc:  # noqa
            res = ("raised", exc)
    finally:
        sys.settrace(old)
    return count[0], sorted(set(window)), res


def run_with_fault(fn, k):
    """run fn, raising Injected at the first line of the k-th call.
    returns ('fired-and-propagated' | 'fired-and-swallowed' | 'not-reached',
             result or exception, name of the function where it fired)"""
    count = [0]
    fired = [None]

    def tracer(frame, event, arg):
        if event != "call":
            return None
        code = frame.f_code
        if not _ours(code.co_filename):
            return None
        count[0] += 1
        if count[0] == k:
            fired[0] = "%s:%s" % (code.co_filename.rsplit("/", 1)[-1], code.co_name)

            def local(frame, event, arg):
                if event == "line":
                    raise Injected("injected at call %d (%s)" % (k, fired[0]))
                return local

            return local
        return None

    old = sys.gettrace()
    sys.settrace(tracer)
    try:
        try:
            out = fn()
            status = "fired-and-swallowed" if fired[0] else "not-reached"
            return status, out, fired[0]
        except BaseException as exc:  # Injected, or SystemError raised by a C caller
            status = "fired-and-propagated" if fired[0] else "raised-without-fault"
            return status, exc, fired[0]
    finally:
        sys.settrace(old)
