"""
Query points derived from the geometry of a case (deterministic given the
case and a list of Hypothesis-drawn fractions in [0,1]).
"""
from __future__ import annotations

import math
from fractions import Fraction as F

from . import refgeom as rg

MARGIN = 1e-5  # 10 x the library's documented 1e-6 on-curve tolerance


def box_of(curves, pad=0.25):
    bs = [rg.curve_box(c) for c in curves]
    x0 = float(min(b[0] for b in bs))
    y0 = float(min(b[1] for b in bs))
    x1 = float(max(b[2] for b in bs))
    y1 = float(max(b[3] for b in bs))
    dx, dy = (x1 - x0) or 1.0, (y1 - y0) or 1.0
    return (x0 - pad * dx, y0 - pad * dy, x1 + pad * dx, y1 + pad * dy)


def uniform_points(curves, us):
    x0, y0, x1, y1 = box_of(curves)
    out = []
    for i in range(0, len(us) - 1, 2):
        out.append((x0 + (x1 - x0) * us[i], y0 + (y1 - y0) * us[i + 1]))
    return out


def far_points(curves):
    x0, y0, x1, y1 = box_of(curves, 0)
    s = max(x1 - x0, y1 - y0, 1.0)
    cx, cy = (x0 + x1) / 2, (y0 + y1) / 2
    return [(cx + 1e3 * s, cy), (cx, cy - 1e3 * s), (cx - 7e2 * s, cy + 7e2 * s)]


def seg_normal(seg, t):
    sf = [rg.fl(p) for p in seg]
    d = rg.bez_eval(rg.bez_deriv(sf), t)
    n = math.hypot(*d)
    if n == 0:
        return None
    return (d[1] / n, -d[0] / n)


def near_boundary_points(curves, us, offsets=(1e-2, 1e-3, 1e-4), max_segs=8):
    """points at +-offset*size (never below MARGIN) from boundary points"""
    out = []
    size = max(rg.curve_size(c) for c in curves) or 1.0
    k = 0
    for c in curves:
        step = max(1, len(c) // max_segs)
        for seg in c[::step]:
            t = 0.1 + 0.8 * us[k % len(us)]
            k += 1
            sf = [rg.fl(p) for p in seg]
            b = rg.bez_eval(sf, t)
            n = seg_normal(seg, t)
            if n is None:
                continue
            for off in (offsets[k % len(offsets)],):
                d = max(off * size, 2 * MARGIN)
                out.append((b[0] + d * n[0], b[1] + d * n[1]))
                out.append((b[0] - d * n[0], b[1] - d * n[1]))
    return out


def sagitta_points(curves, max_segs=5, us=(0.0,)):
    """points between (sub-)chords and the arc of every curved segment"""
    out = []
    n = 0
    for c in curves:
        for seg in c:
            if len(seg) <= 2:
                continue
            n += 1
            if n > max_segs:
                return out
            sf = [rg.fl(p) for p in seg]
            deg = len(seg) - 1
            spans = [(0.0, 1.0), (0.0, 0.5), (0.5, 1.0)]
            spans += [(i / deg, (i + 1) / deg) for i in range(deg)]
            pick = int(us[n % len(us)] * len(spans)) % len(spans)
            for (t0, t1) in (spans[pick], spans[(pick + 1 + deg) % len(spans)]):
                a, b = rg.bez_eval(sf, t0), rg.bez_eval(sf, t1)
                m = rg.bez_eval(sf, (t0 + t1) / 2)
                ch = ((a[0] + b[0]) / 2, (a[1] + b[1]) / 2)
                for w in (0.1, 0.5, 0.9):
                    out.append((ch[0] + w * (m[0] - ch[0]), ch[1] + w * (m[1] - ch[1])))
                # and just beyond the arc
                out.append((ch[0] + 1.1 * (m[0] - ch[0]), ch[1] + 1.1 * (m[1] - ch[1])))
    return out


def boundary_points(curves, us, max_segs=10):
    """(point, curve index, segment index, t) exactly on the boundary:
    vertices and interior points; rational for rational straight segments"""
    out = []
    k = 0
    for ci, c in enumerate(curves):
        step = max(1, len(c) // max_segs)
        for si in range(0, len(c), step):
            seg = c[si]
            exact = all(rg.is_exact(v) for p in seg for v in p)
            u = us[k % len(us)]
            k += 1
            if exact:
                t = F(1 + int(u * 14), 16)
            else:
                t = (1 + int(u * 14)) / 16.0
            out.append((rg.bez_eval(seg, t), ci, si, t))
            out.append((seg[0], ci, si, 0))
    return out


def decided(region, p, margin=MARGIN):
    """the point is at least `margin` away from every boundary curve of the
    rg.Region"""
    return region.clear(p, margin)
