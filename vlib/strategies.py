"""
Hypothesis strategies producing plain-data curves and shape specs
(see vlib/lib.py for the spec format).  Everything random is drawn from
Hypothesis, so cases shrink and replay.
"""
from __future__ import annotations

import math
from fractions import Fraction as F

from hypothesis import assume
from hypothesis import strategies as st

from . import refgeom as rg

NUMKINDS = ["int", "frac", "float", "mixed"]
DENS = [2, 3, 4, 5, 7, 8, 16, 64, 1000]


# ------------------------------------------------------------------ numbers
def snap_value(x: float, nk: str, den: int):
    if nk == "int":
        return int(round(x))
    if nk == "frac":
        return F(int(round(x * den)), den)
    if nk == "float":
        return round(x * den) / den if den in (2, 4, 8, 16, 64) else round(x, 4)
    raise ValueError(nk)


@st.composite
def snapper(draw, nk):
    """returns fn(point_float) -> point of the requested numeric kind"""
    den = draw(st.sampled_from(DENS))
    if nk != "mixed":
        return (lambda p: (snap_value(p[0], nk, den), snap_value(p[1], nk, den))), nk, den
    kinds = draw(st.lists(st.sampled_from(["int", "frac", "float"]), min_size=6, max_size=6))
    state = {"i": 0}

    def fn(p):
        k = kinds[state["i"] % len(kinds)]
        state["i"] += 1
        return (snap_value(p[0], k, den), snap_value(p[1], k, den))

    return fn, nk, den


def rational_numbers(max_abs=50):
    return st.one_of(
        st.integers(-max_abs, max_abs),
        st.builds(lambda n, d: F(n, d), st.integers(-max_abs * 8, max_abs * 8),
                  st.sampled_from(DENS)),
    )


def float_numbers(max_abs=50.0):
    return st.builds(lambda k, d: k / d, st.integers(int(-max_abs * 64), int(max_abs * 64)),
                     st.sampled_from([1, 2, 4, 8, 16, 64]))


def any_numbers(max_abs=50):
    return st.one_of(rational_numbers(max_abs), float_numbers(float(max_abs)))


def positive_numbers(lo=0.05, hi=50.0):
    return st.one_of(
        st.integers(max(1, int(math.ceil(lo))), int(hi)),
        st.builds(lambda n, d: F(n, d), st.integers(1, int(hi) * 8), st.sampled_from(DENS)).filter(
            lambda v: lo <= v <= hi),
        st.floats(lo, hi, allow_nan=False, allow_infinity=False).map(lambda v: round(v, 4)).filter(
            lambda v: v >= lo),
    )


# ------------------------------------------------------------- star curves
def _angular_order_ok(center, pts) -> bool:
    """control points strictly increasing in angle about center, one turn"""
    c = rg.exp(center)
    rel = [rg.sub(rg.exp(p), c) for p in pts]
    n = len(rel)
    total = 0.0
    for i in range(n):
        a, b = rel[i], rel[(i + 1) % n]
        if rg.cross(a, b) <= 0:
            return False
        total += math.atan2(float(rg.cross(a, b)), float(rg.dot(a, b)))
    return abs(total - rg.TAU) < 1e-6


@st.composite
def star_curve(draw, nk="int", center=(0.0, 0.0), rlo=6.0, rhi=14.0, nseg=(3, 7),
               degrees=(1,), cw=False, snap=None, container=False):
    """
    closed simple curve, star-shaped about `center`: all control points are
    in strictly increasing angular order about the centre, hence the angle
    of every Bezier piece is monotone and the curve is simple, without
    cusps.  Curved pieces have their inner control points pushed off the
    chord so that the library does not degree-reduce them.
    Returns the curve (list of segments) in the requested orientation.
    """
    if snap is None:
        snap = draw(snapper(nk))
    fn = snap[0]
    ns = draw(st.integers(nseg[0], nseg[1]))
    degs = [draw(st.sampled_from(list(degrees))) for _ in range(ns)]
    m = sum(degs)
    if m < 3:
        degs[0] += 3 - m
        m = 3
    if container:
        # at least 6 control points with bounded angular gaps (<= 84 deg):
        # the curve then contains the disc of radius 0.74 * rlo
        while m < 6:
            degs.append(1)
            m += 1
    lo, hi = (0.3, 0.7) if (m <= 4 or container) else (0.15, 0.85)
    jit = [draw(st.floats(lo, hi)) for _ in range(m)]
    rad = [draw(st.floats(0.0, 1.0)) for _ in range(m)]
    phase = draw(st.floats(0.0, 1.0))
    pts = []
    idx = 0
    # which control points are interior to a curved segment
    interior = []
    for d in degs:
        interior += [False] + [True] * (d - 1)
    for k in range(m):
        ang = rg.TAU * (k + jit[k] + phase) / m
        r = rlo + (rhi - rlo) * rad[k]
        if interior[k]:
            # push away from the chord: alternate outside / inside
            r = r * (1.35 if (rad[k] >= 0.5 or container) else 0.6)
        p = (center[0] + r * math.cos(ang), center[1] + r * math.sin(ang))
        pts.append(fn(p))
    assume(_angular_order_ok(center, pts))
    curve = []
    k = 0
    for d in degs:
        seg = [pts[(k + i) % m] for i in range(d + 1)]
        curve.append(seg)
        k += d
    # curved pieces must be clearly curved (library clean() tolerance)
    for seg in curve:
        if len(seg) == 3:
            d2 = (seg[0][0] - 2 * seg[1][0] + seg[2][0], seg[0][1] - 2 * seg[1][1] + seg[2][1])
            assume(rg.norm(d2) >= 0.05)
        if len(seg) == 4:
            d3 = (seg[3][0] - 3 * seg[2][0] + 3 * seg[1][0] - seg[0][0],
                  seg[3][1] - 3 * seg[2][1] + 3 * seg[1][1] - seg[0][1])
            assume(rg.norm(d3) >= 0.3)
    if cw:
        curve = rg.curve_reverse(curve)
    return curve


# --------------------------------------------------------- template polygons
def _tmpl_L(a, b, c, d):
    # L: width a+b, height c+d, notch b x d removed at top-right
    return [(0, 0), (a + b, 0), (a + b, c), (a, c), (a, c + d), (0, c + d)]


def _tmpl_U(a, b, c, d, e):
    # U: two towers of widths a, c with gap b, base height d, tower height e
    w = a + b + c
    return [(0, 0), (w, 0), (w, d + e), (a + b, d + e), (a + b, d), (a, d), (a, d + e), (0, d + e)]


def _tmpl_comb(k, tw, gw, base, th):
    pts = [(0, 0), (k * tw + (k - 1) * gw, 0)]
    x = k * tw + (k - 1) * gw
    for i in range(k):
        pts.append((x, base + th))
        pts.append((x - tw, base + th))
        x -= tw
        if i < k - 1:
            pts.append((x, base))
            pts.append((x - gw, base))
            x -= gw
    pts.append((0, base + th)) if pts[-1] != (0, base + th) else None
    # remove duplicate closing vertex
    out = []
    for p in pts:
        if not out or out[-1] != p:
            out.append(p)
    if out[0] == out[-1]:
        out.pop()
    return out


def _tmpl_stairs(k, sw, sh):
    pts = [(0, 0), (k * sw, 0)]
    for i in range(k):
        pts.append((k * sw - i * sw, (i + 1) * sh))
        pts.append((k * sw - (i + 1) * sw, (i + 1) * sh))
    # last point is (0, k*sh); remove collinear duplicates
    out = []
    for p in pts:
        if not out or out[-1] != p:
            out.append(p)
    return out


LINMAPS = [((1, 0), (0, 1)), ((0, -1), (1, 0)), ((-1, 0), (0, -1)), ((0, 1), (-1, 0)),
           ((1, 1), (0, 1)), ((1, 0), (1, 1)), ((2, 1), (1, 1)), ((1, -1), (1, 1)),
           ((2, -1), (1, 2)), ((3, 1), (-1, 2))]


@st.composite
def template_polygon(draw, nk="int", cw=False):
    """non-convex simple polygons (L, U, comb, staircase) under an integer
    linear map of positive determinant and a translation; vertex list ccw
    (or cw on request)."""
    kind = draw(st.sampled_from(["L", "U", "comb", "stairs"]))
    i = st.integers(1, 5)
    if kind == "L":
        v = _tmpl_L(draw(i), draw(i), draw(i), draw(i))
    elif kind == "U":
        v = _tmpl_U(draw(i), draw(i), draw(i), draw(i), draw(i))
    elif kind == "comb":
        v = _tmpl_comb(draw(st.integers(2, 4)), draw(st.integers(1, 3)), draw(st.integers(1, 3)),
                       draw(st.integers(1, 3)), draw(st.integers(1, 4)))
    else:
        v = _tmpl_stairs(draw(st.integers(2, 4)), draw(st.integers(1, 3)), draw(st.integers(1, 3)))
    (a, b), (c, d) = draw(st.sampled_from(LINMAPS))
    tx, ty = draw(st.integers(-20, 20)), draw(st.integers(-20, 20))
    den = draw(st.sampled_from(DENS)) if nk != "int" else 1
    sc = F(draw(st.integers(1, 3 * den)), den) if nk != "int" else draw(st.integers(1, 3))
    out = []
    for (x, y) in v:
        px, py = (a * x + b * y + tx) * sc, (c * x + d * y + ty) * sc
        if nk == "float":
            px, py = float(px), float(py)
        elif nk == "mixed":
            if (x + y) % 3 == 0:
                px, py = float(px), float(py)
        elif nk == "int":
            px, py = int(px), int(py)
        out.append((px, py))
    assume(rg.polygon_is_simple(out))
    assert rg.curve_area(rg.polygon_curve(out)) > 0
    if cw:
        out = list(reversed(out))
    return rg.polygon_curve(out)


@st.composite
def fillet_curve(draw, nk, center, rlo, rhi, cw=False):
    """corner A-B-C closed by the quadratic arc C -> A whose control point is
    B again: a simple closed curve with two *distinct control points of equal
    value* (the vertex B and the arc's control point), tangent corners at A
    and C.  Everything that enumerates control points by value instead of by
    identity goes wrong on it."""
    tri = draw(star_curve(nk, center, rlo, rhi, (3, 3), (1,), False))
    a, b, c = tri[0][0], tri[1][0], tri[2][0]
    curve = [[a, b], [b, c], [c, (b[0], b[1]), a]]
    return rg.curve_reverse(curve) if cw else curve


@st.composite
def arch_curve(draw, nk, center, rlo, rhi, cw=False, degree=2):
    """rectangle topped by a parabolic (or cubic) arch whose chord is exactly
    axis-parallel: a curved segment whose end points share one coordinate
    (dy = 0 or dx = 0 along the chord), in the four axis orientations"""
    snap = draw(snapper(nk if nk != "mixed" else "frac"))[0]
    w = rlo * (0.8 + 0.6 * draw(st.floats(0, 1)))
    h = rlo * (0.5 + 0.5 * draw(st.floats(0, 1)))
    k = (rhi - rlo) * (0.3 + 0.6 * draw(st.floats(0, 1))) + 0.2 * rlo
    a, b, c, d = (-w / 2, -h / 2), (w / 2, -h / 2), (w / 2, h / 2), (-w / 2, h / 2)
    if degree == 2:
        top = [c, (0.0, h / 2 + 2 * k), d]
    else:
        top = [c, (w / 4, h / 2 + 2 * k), (-w / 2, h / 2 + k), d]
    rot = draw(st.integers(0, 3))

    def place(p):
        x, y = p
        for _ in range(rot):
            x, y = -y, x
        return snap((x + center[0], y + center[1]))

    pa, pb, pc, pd = place(a), place(b), place(c), place(d)
    arc = [pc] + [place(q) for q in top[1:-1]] + [pd]
    curve = [[pa, pb], [pb, pc], arc, [pd, pa]]
    assume(rg.curve_area(curve) > 0 and len({pa, pb, pc, pd}) == 4)
    return rg.curve_reverse(curve) if cw else curve


@st.composite
def band_curve(draw, nk, center, rlo, rhi, cw=False):
    """arch-shaped band: an outer arch of two quadratic arcs, two short
    straight feet and an inner arch of one quadratic arc whose control point
    lies *above* the outer arch.  The curve is simple and counter-clockwise,
    but its control polygon is not (it folds over itself): orientation, area
    and containment must come from the curve, not from the control points."""
    snap = draw(snapper(nk if nk != "mixed" else "frac"))[0]
    R = rlo + (rhi - rlo) * draw(st.floats(0.2, 1.0))
    # (r, hc) pairs checked numerically: simple curve, gap between the arches
    # >= 0.04 R, area > 0, and for the last three a control polygon of
    # *negative* area
    r, hc = draw(st.sampled_from([(0.8, 1.6), (0.8, 1.8), (0.9, 1.8), (0.95, 1.7), (0.9, 1.75)]))
    r, hc = r * R, hc * R
    rot = draw(st.integers(0, 3))
    # (the two outer arcs must not be the two halves of one parabola: clean()
    # would legitimately merge them)
    raw = [[(R, 0.0), (0.55 * R, 1.1 * R), (0.0, R)], [(0.0, R), (-0.45 * R, 0.95 * R), (-R, 0.0)], [(-R, 0.0), (-r, 0.0)],
           [(-r, 0.0), (0.0, hc), (r, 0.0)], [(r, 0.0), (R, 0.0)]]

    def place(p):
        x, y = p
        for _ in range(rot):
            x, y = -y, x
        return snap((x + center[0], y + center[1] - 0.4 * R * (1 if rot == 0 else 0)))

    cache = {}

    def pl(p):
        if p not in cache:
            cache[p] = place(p)
        return cache[p]

    curve = [[pl(p) for p in seg] for seg in raw]
    assume(rg.curve_area(curve) > 0)
    return rg.curve_reverse(curve) if cw else curve


@st.composite
def bowl_curve(draw, nk, center, rlo, rhi, cw=False):
    """a deep parabolic bowl closed by a lid between the same two corners:
    'crescent' (lid = shallower arc on the same side: 2 segments, the corner
    polygon has no area), 'lens' (lid bulging to the other side: 2 segments)
    and 'vee' (lid = two straight pieces through a point slightly inside the
    bowl's chord: 3 corners that run *against* the curve).  Orientation, area
    and containment must come from the arcs, not from the corners."""
    snap = draw(snapper(nk if nk != "mixed" else "frac"))[0]
    w = rlo * (0.8 + 0.4 * draw(st.floats(0, 1)))
    d = w * draw(st.sampled_from([1.4, 1.8, 2.4]))
    lid = draw(st.sampled_from(["crescent", "lens", "vee"]))
    e = d * draw(st.sampled_from([0.15, 0.3, 0.45]))
    rot = draw(st.integers(0, 3))

    def place(p):
        x, y = p
        for _ in range(rot):
            x, y = -y, x
        return snap((x + center[0], y + center[1] + (0.25 * d if rot == 0 else 0.0)))

    A, B = place((-w, 0.0)), place((w, 0.0))
    bowl = [A, place((0.0, -d)), B]
    if lid == "crescent":
        curve = [bowl, [B, place((0.0, -e)), A]]
    elif lid == "lens":
        curve = [bowl, [B, place((0.0, e)), A]]
    else:
        C = place((0.0, -e / 2))
        curve = [bowl, [B, C], [C, A]]
    assume(A != B and no_collapsed_segment(curve) and rg.curve_area(curve) > 0)
    assume(_segments_meet_only_at_corners(curve))
    # curved pieces must be clearly curved (library clean() tolerance), as in star_curve
    for seg in curve:
        if len(seg) == 3:
            d2 = (seg[0][0] - 2 * seg[1][0] + seg[2][0], seg[0][1] - 2 * seg[1][1] + seg[2][1])
            assume(rg.norm(d2) >= 0.05)
    return rg.curve_reverse(curve) if cw else curve


def _segments_meet_only_at_corners(curve, gap_rel=0.03) -> bool:
    """snapping to a coarse grid can push the lid through the bowl: the
    segments may only meet at their shared end points, and interior samples
    of one segment stay clear of the others"""
    n = len(curve)
    size = rg.curve_size(curve)
    try:
        for i in range(n):
            for j in range(i + 1, n):
                for c in rg.seg_seg_crossings(curve[i], curve[j]):
                    t, u = float(c["t"]), float(c["u"])
                    if min(t, 1 - t) > 1e-9 or min(u, 1 - u) > 1e-9:
                        return False
    except rg.Degenerate:
        return False
    for i in range(n):
        sf = [rg.fl(q) for q in curve[i]]
        for k in range(2, 15):
            q = rg.bez_eval(sf, k / 16.0)
            for j in range(n):
                if j != i and not rg.seg_clear(curve[j], q, gap_rel * size * min(k, 16 - k) / 8.0):
                    return False
    return True


@st.composite
def simple_curve(draw, nk="int", degrees=(1,), center=(0.0, 0.0), rlo=6.0, rhi=14.0,
                 cw=False, templates=True, nseg=(3, 7)):
    curve = draw(_simple_curve(nk, degrees, center, rlo, rhi, cw, templates, nseg))
    assume(no_collapsed_segment(curve) and clearly_curved(curve))
    return curve


@st.composite
def _simple_curve(draw, nk, degrees, center, rlo, rhi, cw, templates, nseg):
    if 2 in tuple(degrees) and nseg[0] <= 3 and draw(st.integers(0, 7)) == 0:
        return draw(fillet_curve(nk, center, rlo, rhi, cw))
    if 2 in tuple(degrees) and 1 in tuple(degrees) and nseg[0] <= 5 and draw(st.integers(0, 7)) == 0:
        return draw(band_curve(nk, center, rlo, rhi, cw))
    if 2 in tuple(degrees) and nseg[0] <= 3 and draw(st.integers(0, 7)) == 0:
        return draw(bowl_curve(nk, center, rlo, rhi, cw))
    if (2 in tuple(degrees) or 3 in tuple(degrees)) and nseg[0] <= 4 and draw(st.integers(0, 7)) == 0:
        return draw(arch_curve(nk, center, rlo, rhi, cw, 2 if 2 in tuple(degrees) else 3))
    if templates and tuple(degrees) == (1,) and center == (0.0, 0.0) and draw(st.integers(0, 3)) == 0:
        return draw(template_polygon(nk, cw))
    return draw(star_curve(nk, center, rlo, rhi, nseg, degrees, cw))


def clearly_curved(curve) -> bool:
    """no curved piece is within the library's clean() tolerance of a lower
    degree (snapping a template to a coarse grid can put a control point on
    the chord): the constructor would legitimately degree-reduce it and the
    spec would no longer describe the object"""
    for seg in curve:
        if len(seg) == 3:
            d2 = (seg[0][0] - 2 * seg[1][0] + seg[2][0], seg[0][1] - 2 * seg[1][1] + seg[2][1])
            if rg.norm(d2) < 0.05:
                return False
        if len(seg) == 4:
            d3 = (seg[3][0] - 3 * seg[2][0] + 3 * seg[1][0] - seg[0][0],
                  seg[3][1] - 3 * seg[2][1] + 3 * seg[1][1] - seg[0][1])
            if rg.norm(d3) < 0.3:
                return False
    return True


def no_collapsed_segment(curve) -> bool:
    """snapping a small curve to a coarse grid can collapse a short segment to
    a point; such a curve is not an input the library documents"""
    return all(seg[0] != seg[-1] for seg in curve)


# ------------------------------------------------------------ shape specs
SLOTS4 = [(0.5, 0.5), (-0.5, 0.5), (-0.5, -0.5), (0.5, -0.5)]


def base_radius(nk):
    return 60.0 if nk in ("int", "mixed") else 10.0


def _valid(spec):
    from . import lib

    return lib.spec_valid(spec)


@st.composite
def simple_spec(draw, nk="int", degrees=(1,), center=(0.0, 0.0), R=None, cw=None, templates=False):
    R = R or base_radius(nk)
    if cw is None:
        cw = draw(st.booleans())
    c = draw(simple_curve(nk, degrees, center, 0.45 * R, R, cw, templates))
    return {"k": "simple", "curve": c}


@st.composite
def connected_spec(draw, nk="int", degrees=(1,), center=(0.0, 0.0), R=None, bounded=None, nholes=(1, 3)):
    """bounded: outer ccw curve with 1..3 disjoint holes; unbounded: 2..3
    pairwise disjoint cw curves (complement of a disjoint union)"""
    R = R or base_radius(nk)
    if bounded is None:
        bounded = draw(st.booleans())
    snap = draw(snapper(nk))
    k = draw(st.integers(max(nholes[0], 1 if bounded else 2), nholes[1]))
    slots = draw(st.permutations(SLOTS4))[:k]
    curves = []
    if bounded:
        curves.append(draw(star_curve(nk, center, 0.75 * R, R, (3, 8), degrees, False, snap, container=True)))
        rho = 0.62 * 0.75 * R  # radius of a disc certainly inside the outer curve
        if k == 1 and draw(st.booleans()):
            slots = [(0.0, 0.0)]
            hr = (0.3 * rho, 0.9 * rho)
        else:
            hr = (0.15 * rho, 0.3 * rho)
        for (sx, sy) in slots:
            hc = (center[0] + sx * 0.78 * rho, center[1] + sy * 0.78 * rho)
            curves.append(draw(star_curve(nk, hc, hr[0], hr[1], (3, 5), degrees, True, snap)))
    else:
        for (sx, sy) in slots:
            hc = (center[0] + sx * R, center[1] + sy * R)
            curves.append(draw(star_curve(nk, hc, 0.15 * R, 0.4 * R, (3, 6), degrees, True, snap)))
    spec = {"k": "connected", "curves": curves}
    assume(_valid(spec))
    return spec


@st.composite
def disjoint_spec(draw, nk="int", degrees=(1,), center=(0.0, 0.0), R=None, bounded=None):
    """2..3 pairwise disjoint components; bounded: simple/connected pieces in
    separate slots; unbounded: one unbounded simple component plus islands
    inside its hole"""
    R = R or base_radius(nk)
    if bounded is None:
        bounded = draw(st.booleans())
    k = draw(st.integers(2, 3))
    slots = draw(st.permutations(SLOTS4))[:k]
    parts = []
    if bounded and draw(st.integers(0, 3)) == 0:
        # "bullseye": a frame and, inside its hole, a smaller frame or blob
        # (four levels of nesting: outer curve, hole, island, hole of the island)
        snap = draw(snapper(nk))
        outer = draw(star_curve(nk, center, 0.8 * R, R, (3, 8), degrees, False, snap, container=True))
        rho = 0.62 * 0.8 * R
        hole = draw(star_curve(nk, center, 0.7 * rho, 0.95 * rho, (3, 7), degrees, True, snap, container=True))
        rho2 = 0.62 * 0.7 * rho
        isl = draw(star_curve(nk, center, 0.6 * rho2, 0.95 * rho2, (3, 7), degrees, False, snap, container=True))
        parts = [{"k": "connected", "curves": [outer, hole]}]
        if draw(st.booleans()) and nk not in ("int", "mixed"):
            rho3 = 0.62 * 0.6 * rho2
            ihole = draw(star_curve(nk, center, 0.4 * rho3, 0.9 * rho3, (3, 5), degrees, True, snap))
            parts.append({"k": "connected", "curves": [isl, ihole]})
        else:
            parts.append({"k": "simple", "curve": isl})
        spec = {"k": "disjoint", "parts": parts}
        assume(_valid(spec))
        return spec
    if bounded:
        for (sx, sy) in slots:
            pc = (center[0] + sx * R, center[1] + sy * R)
            if draw(st.integers(0, 2)) == 0:
                parts.append(draw(connected_spec(nk, degrees, pc, 0.42 * R, True, (1, 1))))
            else:
                parts.append(draw(simple_spec(nk, degrees, pc, 0.42 * R, False)))
    else:
        outer = draw(star_curve(nk, center, 0.8 * R, R, (3, 7), degrees, True, container=True))
        parts.append({"k": "simple", "curve": outer})
        rho = 0.62 * 0.8 * R
        for (sx, sy) in slots[: k - 1]:
            pc = (center[0] + sx * 0.78 * rho, center[1] + sy * 0.78 * rho)
            parts.append(draw(simple_spec(nk, degrees, pc, 0.3 * rho, False)))
    spec = {"k": "disjoint", "parts": parts}
    assume(_valid(spec))
    return spec


@st.composite
def nested_rings_spec(draw, nk="int", degrees=(1,), levels=4, center=(0.0, 0.0), bounded=True):
    """`levels` strictly nested curves of alternating orientation about one
    centre (ring in ring in ring ...): a DisjointShape of ConnectedShape
    rings, the innermost member simple when the number of curves is odd; the
    unbounded variant starts with a clockwise curve (the plane minus a disc)
    and puts the rings on the island inside it"""
    R = base_radius(nk) * 2.0 ** max(0, levels - 3)
    snap = draw(snapper(nk))
    curves = []
    rhi = R
    for lev in range(levels):
        cw = (lev % 2 == 1) if bounded else (lev % 2 == 0)
        curves.append(draw(star_curve(nk, center, 0.8 * rhi, rhi, (3, 5), degrees, cw, snap, container=True)))
        rhi = 0.62 * 0.8 * rhi
    parts = []
    rest = curves
    if not bounded:
        parts.append({"k": "simple", "curve": curves[0]})
        rest = curves[1:]
    for i in range(0, len(rest), 2):
        if i + 1 < len(rest):
            parts.append({"k": "connected", "curves": [rest[i], rest[i + 1]]})
        else:
            parts.append({"k": "simple", "curve": rest[i]})
    spec = {"k": "disjoint", "parts": parts} if len(parts) > 1 else parts[0]
    assume(_valid(spec))
    return spec


KINDS = ["empty", "whole", "simple+", "simple-", "connected+", "connected-", "disjoint+", "disjoint-"]


@st.composite
def shape_spec(draw, nk="int", degrees=(1,), center=(0.0, 0.0), R=None, kinds=None, templates=False):
    kind = draw(st.sampled_from(kinds or KINDS))
    if kind == "empty":
        return {"k": "empty"}
    if kind == "whole":
        return {"k": "whole"}
    b = kind.endswith("+")
    if kind.startswith("simple"):
        return draw(simple_spec(nk, degrees, center, R, not b, templates))
    if kind.startswith("connected"):
        return draw(connected_spec(nk, degrees, center, R, b))
    return draw(disjoint_spec(nk, degrees, center, R, b))


@st.composite
def numkind_and_degrees(draw, curved_weight=1):
    """(nk, degrees) strata: polygons of every numeric kind, curved float"""
    choice = draw(st.sampled_from(
        [("int", (1,)), ("frac", (1,)), ("float", (1,)), ("mixed", (1,))]
        + [("float", (1, 2)), ("float", (2,)), ("float", (1, 2, 3)), ("frac", (1, 2, 3)), ("float", (3,))] * curved_weight
    ))
    return choice
