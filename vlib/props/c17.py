"""C17 -- Jordan-curve constructors agree with each other and reject open chains"""
from __future__ import annotations

import math
from fractions import Fraction as F

from hypothesis import strategies as st

from .. import lib
from .. import refgeom as rg
from .. import strategies as S
from ..engine import Part, call_limit, innermost_shapepy_frame

PROPERTY = "C17"
RULE = (
    "Hypothesis draws a closed piecewise-Bezier description (polygons of every numeric kind; curves of uniform "
    "degree 2 or 3 and of mixed degrees 1..3) and renders it through from_vertices (polygons), from_segments, "
    "from_ctrlpoints and from_full_curve (uniform degree; pynurbs curve whose interior knots have multiplicity = "
    "degree). Oracle: all renderings are pairwise ==, have the model's vertices (each control point once, in "
    "order), segments, box, signed length and area; box() contains 50 sampled points per segment; the sign of "
    "float(curve) is the model's orientation; polygon length is exact to 1e-9. Malformed inputs (a gap >= 1e-3 "
    "between consecutive end points, last segment not closing, a string, a list with a non-curve) must raise and "
    "produce no curve. Non-trivial: a curved segment or >= 5 vertices."
)
MANDATORY = ["from_vertices", "from_segments", "from_ctrlpoints", "from_full_curve", "from_full_curve-with-reducible-spans", "malformed:gap", "malformed:not-closing",
             "malformed:string", "malformed:non-curve", "cw", "ccw"]


def _elevate(seg, d):
    """control points of the same Bezier segment written with degree d"""
    pts = [tuple(p) for p in seg]
    while len(pts) - 1 < d:
        n = len(pts) - 1
        new = [pts[0]]
        for i in range(1, n + 1):
            a = F(i, n + 1) if all(rg.is_exact(v) for p in pts for v in p) else i / (n + 1)
            new.append((a * pts[i - 1][0] + (1 - a) * pts[i][0], a * pts[i - 1][1] + (1 - a) * pts[i][1]))
        new.append(pts[-1])
        pts = new
    return pts


def _make_full_curve(curve):
    import pynurbs

    Sp = lib.sp()
    d = max(len(s) - 1 for s in curve)
    # spans of lower degree are written degree-elevated: the full curve has one
    # degree, from_full_curve must reduce every span back
    curve = [_elevate(s, d) for s in curve]
    n = len(curve)
    knots = [F(0)] * (d + 1)
    for k in range(1, n):
        knots += [F(k, n)] * d
    knots += [F(1)] * (d + 1)
    pts = [curve[0][0]]
    for seg in curve:
        pts += list(seg[1:])
    pts = [Sp.Point2D(p) for p in pts]
    return pynurbs.Curve(knots, pts)


def _length(curve):
    total = 0.0
    for seg in curve:
        sf = [rg.fl(p) for p in seg]
        if len(sf) == 2:
            total += rg.dist(sf[0], sf[1])
            continue
        prev = sf[0]
        for k in range(1, 257):
            q = rg.bez_eval(sf, k / 256.0)
            total += rg.dist(prev, q)
            prev = q
    return total


def judge(ctx, case):
    Sp = lib.sp()
    curve = lib.tup(case["curve"])
    polygon = rg.curve_is_polygon(curve)
    uniform = len({len(s) for s in curve}) == 1
    area = rg.curve_area(curve)
    nverts = sum(len(s) - 1 for s in curve)
    size = max(rg.curve_size(curve), 1.0)
    builders = []
    if polygon:
        builders.append(("from_vertices", lambda: Sp.JordanCurve.from_vertices([s[0] for s in curve])))
    builders.append(("from_segments", lambda: Sp.JordanCurve.from_segments([Sp.PlanarCurve(list(s)) for s in curve])))
    builders.append(("from_ctrlpoints", lambda: Sp.JordanCurve.from_ctrlpoints([list(s) for s in curve])))
    if not polygon or case.get("full_polygon"):
        builders.append(("from_full_curve", lambda: Sp.JordanCurve.from_full_curve(_make_full_curve(curve))))
        if not uniform:
            ctx.count("stratum:from_full_curve-with-reducible-spans")
    strata = [b[0] for b in builders] + ["ccw" if area > 0 else "cw"]
    ctx.evaluated(case, (not polygon) or nverts >= 5, strata)
    built = []
    for name, fn in builders:
        try:
            with call_limit(120):
                built.append((name, fn()))
        except BaseException as exc:
            ctx.violation("construct", "raised-on-valid-input", case, "%s: %r" % (name, exc), name)
    want_verts = []
    for seg in curve:
        want_verts += list(seg[:-1])
    exact = rg.curve_is_exact(curve)
    ref_len = _length(curve)
    for name, j in built:
        try:
            with call_limit(120):
                got = lib.read_jordan(j)
                verts = [(lib.num(v[0]), lib.num(v[1])) for v in j.vertices]
                flt = float(j)
                ar = Sp.IntegrateJordan.area(j)
                box = j.box()
                lo, hi = (lib.num(box.lowpt[0]), lib.num(box.lowpt[1])), (lib.num(box.toppt[0]), lib.num(box.toppt[1]))
        except BaseException as exc:
            ctx.violation("observe", "raised", case, "%s: %r" % (name, exc), innermost_shapepy_frame(exc))
            continue
        # from_full_curve goes through pynurbs arithmetic: tolerance instead of exactness
        ex = exact and name != "from_full_curve"
        tol = 0 if ex else 1e-9 * size
        ok = len(got) == len(curve) and all(len(a) == len(b) for a, b in zip(got, curve))
        if ok:
            for a, b in zip(got, curve):
                for p, q in zip(a, b):
                    if (ex and (p[0] != q[0] or p[1] != q[1])) or (not ex and rg.dist(p, q) > tol):
                        ok = False
        if not ok:
            ctx.violation("segments", "differ-from-description", case, "%s: %r" % (name, got[:3]), name)
            continue
        if len(verts) != nverts or any(rg.dist(p, q) > tol for p, q in zip(verts, want_verts)):
            ctx.violation("vertices", "not-each-control-point-once-in-order", case,
                          "%s: %d vertices %r, model %d %r" % (name, len(verts), verts[:5], nverts, want_verts[:5]), name)
        if (flt > 0) != (area > 0):
            ctx.violation("orientation", "sign-of-float", case, "%s: float=%r, model area %r" % (name, flt, float(area)), name)
        if polygon and abs(abs(flt) - ref_len) > 1e-9 * ref_len:
            ctx.violation("length", "polygon-length", case, "%s: |float|=%r, length %r" % (name, abs(flt), ref_len), name)
        if not polygon and abs(abs(flt) - ref_len) > 0.05 * ref_len:
            ctx.violation("length", "curved-length-gross", case, "%s: |float|=%r, length %r" % (name, abs(flt), ref_len), name)
        if abs(float(ar) - float(area)) > 1e-9 * size * size:
            ctx.violation("area", "IntegrateJordan.area", case, "%s: %r vs %r" % (name, float(ar), float(area)), name)
        # box: min/max of control points, contains sampled curve points
        bx = rg.curve_box(curve)
        if any(abs(float(a) - float(b)) > tol for a, b in zip((lo[0], lo[1], hi[0], hi[1]), bx)):
            ctx.violation("box", "box-differs", case, "%s: box %r..%r, model %r" % (name, lo, hi, bx), name)
        try:
            with call_limit(120):
                for seg in curve:
                    sf = [rg.fl(p) for p in seg]
                    for k in range(0, 51, 5 if len(curve) > 6 else 1):
                        q = rg.bez_eval(sf, k / 50.0)
                        if q not in box:
                            ctx.violation("box", "curve-point-outside-box", case, "%s: %r not in %s" % (name, q, box), name)
                            raise StopIteration
        except StopIteration:
            pass
        except BaseException as exc:
            ctx.violation("observe", "raised", case, "%s: %r" % (name, exc), innermost_shapepy_frame(exc))
    # every rendering supports the in-place operations that rely on junction
    # points being shared between consecutive segments
    import copy as _copy

    for name, j in built:
        try:
            with call_limit(120):
                jj = _copy.deepcopy(j)
                jj.split([0], [F(1, 2)])
                jj.invert()
                jj.invert()
                jj.clean()
                if (jj == j) is not True:
                    ctx.violation("agree", "split-invert-clean-changes-the-curve", case, name, name)
        except BaseException as exc:
            ctx.violation("agree", "in-place-operation-raised", case, "%s: %r" % (name, exc), name)
    # pairwise agreement
    for i in range(len(built)):
        for k in range(i + 1, len(built)):
            na, ja = built[i]
            nb, jb = built[k]
            try:
                with call_limit(120):
                    eq, eq2 = ja == jb, jb == ja
                    fa, fb = float(ja), float(jb)
            except BaseException as exc:
                ctx.violation("agree", "equality-raised", case, "%s vs %s: %r" % (na, nb, exc), innermost_shapepy_frame(exc))
                continue
            if eq is not True or eq2 is not True:
                ctx.violation("agree", "constructors-not-equal", case, "%s == %s -> %r / %r" % (na, nb, eq, eq2), na + "/" + nb)
            if abs(fa - fb) > 1e-9 * max(abs(fa), 1.0):
                ctx.violation("agree", "signed-length-differs", case, "%s %r vs %s %r" % (na, fa, nb, fb), na + "/" + nb)


    # finally on the built objects themselves (not copies): the last rendering
    for name, j in built[-1:]:
        try:
            with call_limit(120):
                j.split([len(curve) - 1], [F(1, 3)])
                j.invert()
        except BaseException as exc:
            ctx.violation("agree", "in-place-operation-raised", case, "%s (original object): %r" % (name, exc), name)


def judge_malformed(ctx, case):
    Sp = lib.sp()
    curve = lib.tup(case["curve"])
    kind = case["defect"]
    ctx.evaluated(case, True, ["malformed:" + kind])
    segs = [list(s) for s in curve]
    calls = []
    if kind in ("gap", "not-closing"):
        i = case["where"] % len(segs) if kind == "gap" else len(segs) - 1
        g = case["gap"]
        p = segs[i][-1]
        q = (p[0] + g[0], p[1] + g[1])
        if rg.dist(p, q) < 1e-3:
            q = (p[0] + 1, p[1])
        segs[i] = segs[i][:-1] + [q]
        calls.append(("from_ctrlpoints", lambda: Sp.JordanCurve.from_ctrlpoints(segs)))
        calls.append(("from_segments", lambda: Sp.JordanCurve.from_segments([Sp.PlanarCurve(s) for s in segs])))
    elif kind == "string":
        calls.append(("from_vertices", lambda: Sp.JordanCurve.from_vertices("abcd")))
        calls.append(("from_ctrlpoints", lambda: Sp.JordanCurve.from_ctrlpoints("abcd")))
        calls.append(("from_segments", lambda: Sp.JordanCurve.from_segments("abcd")))
    else:
        bad = case["junk"]
        calls.append(("from_segments", lambda: Sp.JordanCurve.from_segments([Sp.PlanarCurve(s) for s in segs[:-1]] + [bad])))
        calls.append(("constructor", lambda: Sp.JordanCurve([Sp.PlanarCurve(s) for s in segs[:-1]] + [bad])))
    for name, fn in calls:
        try:
            with call_limit(60):
                res = fn()
        except Exception:
            continue
        except BaseException as exc:
            ctx.violation("malformed", "non-Exception-raised", case, "%s: %r" % (name, exc), name)
            continue
        ctx.violation("malformed", "accepted-" + kind, case, "%s returned %r" % (name, res), name)


# ------------------------------------------------------------------ strategies
@st.composite
def cases(draw):
    mode = draw(st.sampled_from(["polygon", "polygon", "uniform2", "uniform3", "mixed"]))
    if mode == "polygon":
        nk = draw(st.sampled_from(S.NUMKINDS))
        deg = (1,)
    else:
        nk = draw(st.sampled_from(["float", "float", "frac", "int"]))
        deg = {"uniform2": (2,), "uniform3": (3,), "mixed": (1, 2, 3)}[mode]
    R = S.base_radius(nk)
    c = (round(draw(st.floats(-2, 2)) * R), round(draw(st.floats(-2, 2)) * R))
    curve = draw(S.simple_curve(nk, deg, (float(c[0]), float(c[1])), 0.45 * R, R, draw(st.booleans()), templates=False, nseg=(3, 9)))
    return {"curve": curve, "full_polygon": draw(st.booleans())}


@st.composite
def malformed(draw):
    base = draw(cases())
    kind = draw(st.sampled_from(["gap", "not-closing", "string", "non-curve"]))
    g = draw(st.sampled_from([(1e-3, 0), (0, -2e-3), (0.5, 0.5), (3, -1), (F(1, 100), 0)]))
    junk = draw(st.sampled_from(["segment", 3, None, [(0, 0), (1, 1)]]))
    if junk == [(0, 0), (1, 1)]:
        junk = [[0, 0], [1, 1]]
    return {"curve": base["curve"], "defect": kind, "where": draw(st.integers(0, 20)), "gap": list(g), "junk": junk}


def parts(tier):
    q = tier == "quick"
    return [
        Part("agree", judge, cases(), n=1500 if q else 40000, budget_s=70 if q else 1500),
        Part("malformed", judge_malformed, malformed(), n=600 if q else 12000, budget_s=40 if q else 600),
    ]
