"""C08 -- Operators and queries leave operands unchanged; results share no state"""
from __future__ import annotations

import copy as _copy
from fractions import Fraction as F

from hypothesis import strategies as st

from .. import lib
from .. import opcases as oc
from .. import refgeom as rg
from .. import strategies as S
from ..engine import Part, call_limit, innermost_shapepy_frame

PROPERTY = "C08"
RULE = (
    "Hypothesis draws two operands of every kind (crossing, nested, apart, equal, Empty/Whole: every short-cut path "
    "of the operators), a history of 1-2 operations out of | & - ^ + * ~ -x, `in` (shape, boundary curve, point), "
    "==, float, integrals, box, copy, deepcopy, plot, SimpleShape(jordan), DisjointShape([S]), and then an in-place "
    "mutation (move / scale / rotate / invert with drawn parameters) of the result, of A or of B. Oracle: (1) after "
    "every operation each operand still has its boundary curves: same number, orientation, area (exact for "
    "rational polygons) and every control vertex of the possibly re-split representation lies on the original "
    "curve as generated (exact / 1e-9), all original vertices still present; (2) the structural snapshot (values "
    "and types of every control point) of every object other than the mutated one is bit-identical before and "
    "after the mutation; copies of Empty/Whole are the singletons. Non-trivial: the operation took a short-cut "
    "path or recombined crossing boundaries, and the mutation moved something."
)
MANDATORY = ["op:binary", "op:unary", "op:query", "op:copy", "op:plot", "op:constructor", "shortcut", "recombined",
             "mutate:result", "mutate:operand", "apart-bounded-operands:union", "mutation:move", "mutation:scale", "mutation:rotate", "mutation:invert"]

BINARY = ["|", "&", "-", "^", "+", "*"]
UNARY = ["~", "neg"]
QUERY = ["in", "eq", "float", "moment", "box", "jordan-in", "point-in"]
COPY = ["copy", "deepcopy"]
OTHER = ["plot", "SimpleShape", "DisjointShape"]


def run_operation(name, A, B):
    """returns the result object (or None for queries)"""
    Sp = lib.sp()
    if name in BINARY:
        return oc.apply_op(name, A, B)
    if name == "~":
        return ~A
    if name == "neg":
        return -A
    if name == "in":
        _ = B in A
        return None
    if name == "eq":
        _ = A == B
        return None
    if name == "float":
        _ = float(A)
        return None
    if name == "moment":
        if lib.kind_of(A) not in ("empty", "whole"):
            Sp.IntegrateShape.polynomial(A, 1, 1)
            Sp.IntegrateShape.area(A)
        return None
    if name == "box":
        if lib.kind_of(A) not in ("empty", "whole"):
            A.box()
        return None
    if name == "jordan-in":
        if lib.kind_of(A) not in ("empty", "whole") and lib.kind_of(B) not in ("empty", "whole"):
            _ = B.jordans[0] in A
            _ = A.contains_jordan(B.jordans[0], False)
        return None
    if name == "point-in":
        if lib.kind_of(B) not in ("empty", "whole"):
            p = B.jordans[0].vertices[0]
            _ = p in A
            _ = (float(p[0]) + 0.125, float(p[1])) in A
        return None
    if name == "copy":
        return _copy.copy(A)
    if name == "deepcopy":
        return _copy.deepcopy(A)
    if name == "plot":
        from matplotlib.figure import Figure

        fig = Figure()
        Sp.ShapePloter(fig=fig, ax=fig.add_subplot()).plot(A)
        return None
    if name == "SimpleShape":
        if lib.kind_of(A) in ("empty", "whole"):
            return None
        return Sp.SimpleShape(A.jordans[0])
    if name == "DisjointShape":
        if lib.kind_of(A) in ("empty", "whole", "disjoint"):
            return None
        return Sp.DisjointShape([A])
    raise ValueError(name)


def mutate(obj, mut):
    k = mut["k"]
    if k == "move":
        obj.move(mut["v"][0], mut["v"][1])
    elif k == "scale":
        obj.scale(mut["s"][0], mut["s"][1])
    elif k == "rotate":
        obj.rotate(mut["a"])
    else:
        # invert: SimpleShape.invert / JordanCurve.invert in place
        if hasattr(obj, "invert"):
            obj.invert()
        else:
            for j in obj.jordans:
                j.invert()


def operand_intact(spec, shape, all_rational=True):
    """None if the library object still carries the boundary of the spec.
    all_rational: every operand of the history is a rational polygon (then
    inserted crossing vertices must be exact rationals on the edges; with a
    float partner they are floats, on the edge up to rounding)"""
    k = spec["k"]
    if k in ("empty", "whole"):
        return None if lib.kind_of(shape) == k else "singleton became %s" % lib.kind_of(shape)
    want = lib.spec_curves(spec)
    got = lib.read_curves(shape)
    if len(got) != len(want):
        return "%d boundary curves, had %d" % (len(got), len(want))
    left = list(want)
    for g in got:
        ga = rg.curve_area(g)
        hit = None
        for i, w in enumerate(left):
            wa = rg.curve_area(w)
            exact = all_rational and rg.curve_is_exact(w) and rg.curve_is_polygon(w)
            size = max(rg.curve_size(w), 1.0)
            if exact:
                # a crossing whose exact denominator exceeds the 1e9 cap is
                # stored rounded (<= 1e-18): such vertices, recognisable by
                # their large denominators, may be off the edge by that much
                if not rg.curve_is_exact(g) or abs(ga - wa) > F(1, 10**14) * F(size * size).limit_denominator(10**6):
                    continue
            elif abs(float(ga) - float(wa)) > (1e-9 * size * size if rg.curve_is_polygon(w) else 2.5e-4 * size):
                # curved operands: short pieces left by a split may be
                # degree-reduced within the library's 1e-9 squared-L2 tolerance
                # (deviation <= ~7e-5 along the piece)
                continue
            # every control vertex of g on w, every vertex of w among g's
            gv = [seg[0] for seg in g]
            wv = [seg[0] for seg in w]
            if exact:
                def on_edge(p):
                    pe = rg.exp(p)
                    if any(rg.point_on_segment_exact(rg.exp(s[0]), rg.exp(s[1]), pe) for s in w):
                        return True
                    capped = max(pe[0].denominator, pe[1].denominator) > 10**8
                    return capped and not rg.curve_clear(w, p, 1e-15 * size)

                on = all(on_edge(p) for p in gv)
                have = all(any(F(p[0]) == F(q[0]) and F(p[1]) == F(q[1]) for q in gv) for p in wv)
            else:
                on = all(not rg.curve_clear(w, p, 1e-8 * size) for p in gv)
                have = all(any(rg.dist(p, q) <= 1e-12 * size for q in gv) for p in wv)
            if on and have:
                hit = i
                break
        if hit is None:
            return "boundary curve %r... (area %r) is none of the original curves" % ([rg.fl(s[0]) for s in g][:4], float(ga))
        left.pop(hit)
    return None


def judge(ctx, case):
    Sp = lib.sp()
    sa, sb = case["a"], case["b"]
    ops = case["ops"]
    mut, target = case["mut"], case["target"]
    ca, cb = lib.spec_curves(sa), lib.spec_curves(sb)
    verdict, ncross = oc.classify_pair(ca, cb) if ca and cb else ("general", 0)
    if verdict in ("ill", "contact"):
        ctx.count("skipped-" + verdict)
        return
    groups = set()
    for o in ops:
        groups.add("op:binary" if o in BINARY else "op:unary" if o in UNARY else "op:query" if o in QUERY else "op:copy" if o in COPY
                   else "op:plot" if o == "plot" else "op:constructor")
    shortcut = sa["k"] in ("empty", "whole") or sb["k"] in ("empty", "whole") or ncross == 0 or verdict == "identical"
    strata = sorted(groups) + ["shortcut" if shortcut else "recombined", "mutation:" + mut["k"],
                               "mutate:result" if target == "result" else "mutate:operand"]
    if case.get("config") == "apart" and ops[0] in BINARY and ca and cb and all(lib.spec_moment(x) > 0 for x in (sa, sb)):
        strata.append("apart-bounded-operands:" + ("union" if ops[0] in ("|", "+") else "other"))
    ctx.evaluated(case, True, strata)
    where = "+".join(ops)
    all_rational = all(rg.curve_is_exact(c) and rg.curve_is_polygon(c) for c in ca + cb)
    try:
        with call_limit(300):
            A, B = lib.build(sa), lib.build(sb)
    except BaseException as exc:
        ctx.violation("build", "raised", case, repr(exc), innermost_shapepy_frame(exc))
        return
    results = []
    for o in ops:
        try:
            with call_limit(300):
                r = run_operation(o, A, B)
        except BaseException as exc:
            ctx.count("operation-raised:" + type(exc).__name__)
            return
        if r is not None:
            results.append((o, r))
        for name, spec, obj in (("A", sa, A), ("B", sb, B)):
            msg = operand_intact(spec, obj, all_rational)
            if msg:
                ctx.violation("operand-changed", "after-" + ("binary" if o in BINARY else o), case, "%s after %s: %s" % (name, o, msg), where)
                return
        if o in COPY and sa["k"] in ("empty", "whole") and r is not A:
            ctx.violation("copy", "singleton-copy-is-not-the-singleton", case, "%s(%s) -> %r" % (o, sa["k"], r), where)
    # ---- mutation independence ---------------------------------------------
    objs = {"A": A, "B": B}
    for i, (o, r) in enumerate(results):
        objs["result%d(%s)" % (i, o)] = r
    if target == "result":
        names = [n for n in objs if n.startswith("result") and lib.kind_of(objs[n]) not in ("empty", "whole")]
    else:
        names = [n for n in (target,) if lib.kind_of(objs[n]) not in ("empty", "whole")]
    if not names:
        ctx.count("nothing-to-mutate")
        return
    tname = names[-1]
    before = {n: lib.structural_snapshot(o) for n, o in objs.items() if n != tname}
    t_before = lib.structural_snapshot(objs[tname])
    try:
        with call_limit(120):
            mutate(objs[tname], mut)
    except BaseException as exc:
        ctx.violation("mutation", "raised", case, "%s on %s: %r" % (mut, tname, exc), innermost_shapepy_frame(exc))
        return
    if lib.structural_snapshot(objs[tname]) == t_before and mut["k"] != "rotate":
        ctx.count("mutation-moved-nothing")
    for n, snap in before.items():
        if objs[n] is objs[tname]:
            # the same object under two names is only legitimate for singletons
            ctx.violation("aliasing", "result-is-the-operand-itself", case, "%s is %s after %s" % (n, tname, ops), where)
            return
        if lib.structural_snapshot(objs[n]) != snap:
            ctx.violation("aliasing", "mutating-%s-changes-%s" % (tname.split("(")[0].rstrip("0123456789"), n.split("(")[0].rstrip("0123456789")),
                          case, "%s on %s changed %s (history %s)" % (mut, tname, n, ops), where)
            return


# ------------------------------------------------------------------ strategies
@st.composite
def cases(draw, curved):
    base = draw(oc.operand_pair(curved))
    same = draw(st.integers(0, 7)) == 0
    if same:
        base["b"] = _copy.deepcopy(base["a"])  # equal operands: another short-cut path
    n = draw(st.integers(1, 2))
    ops = [draw(st.sampled_from(BINARY * 3 + UNARY + QUERY + COPY + OTHER)) for _ in range(n)]
    k = draw(st.sampled_from(["move", "scale", "rotate", "invert"]))
    if k == "move":
        mut = {"k": k, "v": [draw(st.integers(1, 9)), draw(st.integers(-9, 9))]}
    elif k == "scale":
        mut = {"k": k, "s": [draw(st.integers(2, 4)), draw(st.integers(2, 4))]}
    elif k == "rotate":
        mut = {"k": k, "a": draw(st.sampled_from([0.5, 1.0, 2.5]))}
    else:
        mut = {"k": k}
    base.update(ops=ops, mut=mut, target=draw(st.sampled_from(["result", "result", "A", "B"])))
    return base


@st.composite
def apart_cases(draw):
    """two bounded operands with disjoint bounding boxes, one binary operator
    (half of them a union), then the mutation: every path that could hand the
    operands' own components back to the caller"""
    nk = draw(st.sampled_from(S.NUMKINDS))
    R = S.base_radius(nk)
    kinds = ["simple+", "simple+", "connected+", "disjoint+"]
    a = draw(S.shape_spec(nk, (1,), kinds=kinds, templates=True))
    off = (2.6 * R * draw(st.sampled_from([-1, 1])), draw(st.floats(-1.0, 1.0)) * R)
    if nk in ("int", "mixed"):
        off = (float(round(off[0])), float(round(off[1])))
    b = draw(S.shape_spec(nk, (1,), center=off, R=R, kinds=kinds, templates=False))
    base = {"a": a, "b": b, "config": "apart", "us": draw(st.lists(st.floats(0.0, 1.0), min_size=12, max_size=12)), "nk": nk, "deg": [1]}
    first = draw(st.sampled_from(["|", "+", "|", "&", "-", "^", "*"]))
    ops = [first] + ([draw(st.sampled_from(BINARY + COPY))] if draw(st.booleans()) else [])
    k = draw(st.sampled_from(["move", "scale", "rotate", "invert"]))
    mut = {"k": k}
    if k == "move":
        mut["v"] = [draw(st.integers(1, 9)), draw(st.integers(-9, 9))]
    elif k == "scale":
        mut["s"] = [draw(st.integers(2, 4)), draw(st.integers(2, 4))]
    elif k == "rotate":
        mut["a"] = draw(st.sampled_from([0.5, 1.0, 2.5]))
    base.update(ops=ops, mut=mut, target=draw(st.sampled_from(["result", "A", "B"])))
    return base


def parts(tier):
    q = tier == "quick"
    return [
        Part("polygons", judge, cases(False), n=1500 if q else 50000, budget_s=80 if q else 2400),
        Part("apart", judge, apart_cases(), n=240 if q else 6000, budget_s=40 if q else 900),
        Part("curved", judge, cases(True), n=64 if q else 1500, budget_s=80 if q else 3000, shards=16),
    ]
