"""C12 -- Results do not depend on position, orientation or unit of length"""
from __future__ import annotations

import math
from fractions import Fraction as F

from hypothesis import strategies as st

from .. import lib, probes
from .. import opcases as oc
from .. import refgeom as rg
from .. import strategies as S
from ..engine import Part, call_limit, innermost_shapepy_frame
from . import c01, c03

PROPERTY = "C12"
RULE = (
    "The operand pairs of C01 together with a similarity T = translate o rotate o scale: for rational polygons "
    "exact quarter turns, rational factors in [1e-3, 1e5] and rational translations up to 1e6 (all judged, no "
    "conditioning); for float polygons and curved operands any angle, log-uniform factor in [1e-3, 1e5] and "
    "translation up to 1e5 (1e6 in a separately counted stratum). The transformed operands are built from "
    "transformed model control points (not with the library's move/scale/rotate). Oracle: T(p) in T(A) op T(B) "
    "iff the model contains p (margins scaled with the factor, never below 1e-5 absolute), the kind of the result "
    "equals the kind obtained without T, areas scale by the factor squared, T(B) in T(A) iff B in A (witness "
    "oracle). Float/curved configurations that are well conditioned before T but fall below the absolute "
    "conditioning thresholds after T belong to the open finding on absolute tolerances and are counted, not "
    "judged. Non-trivial: the operands cross and the factor is outside [0.5, 2] or |t| >= 1e3 or the angle is "
    "not a multiple of 90 degrees."
)
MANDATORY = ["rational", "float", "curved", "millimetre-drawing", "scale<0.5", "scale>2", "shift>=1e3", "rotation", "subset", "crossing"]


def make_map(T, exact):
    s, q, ang, tx, ty = T["s"], T.get("quarter", 0), T.get("angle", 0.0), T["tx"], T["ty"]
    if exact:
        def fn(p):
            x, y = p[0] * s, p[1] * s
            for _ in range(q % 4):
                x, y = -y, x
            return (x + tx, y + ty)
        return fn
    c, sn = math.cos(ang), math.sin(ang)

    def fn(p):
        x, y = float(p[0]) * float(s), float(p[1]) * float(s)
        return (c * x - sn * y + float(tx), sn * x + c * y + float(ty))
    return fn


def abs_tolerance_regime(case) -> bool:
    """well conditioned as drawn, ill conditioned after the similarity map
    (or curved / float segments shorter than 1e-2 after it): the library's
    absolute constants (1e-6 / 1e-9) then decide the result"""
    sa, sb, T = case["a"], case["b"], case["T"]
    ca, cb = lib.spec_curves(sa), lib.spec_curves(sb)
    exact = all(rg.curve_is_exact(c) and rg.curve_is_polygon(c) for c in ca + cb)
    if exact or not (ca or cb):
        return False
    fn = make_map(T, False)
    ta, tb = [rg.curve_map(c, fn) for c in ca], [rg.curve_map(c, fn) for c in cb]
    # a curved segment shorter than 1e-2 after the map is degree-reduced by the
    # absolute clean() tolerance whatever the other operand is
    curved_short = [rg.dist(sg[0], sg[-1]) for c in ta + tb for sg in c if len(sg) > 2]
    if curved_short and min(curved_short) < 1e-2:
        return True
    if not (ca and cb) or oc.classify_pair(ca, cb)[0] != "general":
        return False
    if oc.min_segment_length(ta + tb) < 1e-2:
        return True
    return oc.classify_pair(ta, tb)[0] == "ill"


KNOWN_CLASSES = dict(c01.KNOWN_CLASSES)
KNOWN_CLASSES["float-or-curved-configuration-below-absolute-tolerances-after-T"] = abs_tolerance_regime


def judge(ctx, case):
    sa, sb, op, T = case["a"], case["b"], case["op"], case["T"]
    ca, cb = lib.spec_curves(sa), lib.spec_curves(sb)
    curved = any(len(s) > 2 for c in ca + cb for s in c)
    exact = not curved and all(rg.curve_is_exact(c) for c in ca + cb)
    verdict, ncross = oc.classify_pair(ca, cb) if ca and cb else ("general", 0)
    if verdict == "ill" or (curved and oc.min_segment_length(ca + cb) < 1e-2):
        ctx.count("skipped-illconditioned")
        return
    if verdict in ("contact", "identical") and ctx.known_class(case, c01.KNOWN_CLASSES):
        return
    if ctx.known_class(case, {"xor-of-crossing-float-or-curved-operands": c01.xor_curved_crossing}):
        return
    fn = make_map(T, exact)
    ta, tb = lib.spec_map(sa, fn), lib.spec_map(sb, fn)
    if not exact:
        if abs_tolerance_regime(case):
            if ctx.known_class(case, KNOWN_CLASSES):
                return
        else:
            tca, tcb = lib.spec_curves(ta), lib.spec_curves(tb)
            v2 = oc.classify_pair(tca, tcb)[0] if tca and tcb else "general"
            if v2 != "general":
                ctx.count("skipped-illconditioned-after-T")
                return
    s = float(T["s"])
    shift = max(abs(float(T["tx"])), abs(float(T["ty"])))
    strata = ["rational" if exact else ("curved" if curved else "float")]
    if s < 0.5:
        strata.append("scale<0.5")
    if s > 2:
        strata.append("scale>2")
    if shift >= 1e3:
        strata.append("shift>=1e3")
    if shift > 1e5:
        strata.append("shift>1e5")
    rotated = (T.get("quarter", 0) % 4 != 0) if exact else (abs(math.sin(2 * T.get("angle", 0.0))) > 1e-9)
    if rotated:
        strata.append("rotation")
    if ncross:
        strata.append("crossing")
    if case.get("unit_size"):
        strata.append("unit-size-drawing")
        if s <= 0.01:
            strata.append("millimetre-drawing")
    ctx.evaluated(case, ncross > 0 and (s < 0.5 or s > 2 or shift >= 1e3 or rotated), strata)
    where = strata[0] + ":" + op
    RA, RB = lib.spec_region(sa), lib.spec_region(sb)
    region = oc.model_op(op, RA, RB)
    try:
        with call_limit(240):
            R0 = oc.apply_op(op, lib.build(sa), lib.build(sb))
            RT = oc.apply_op(op, oc.build_operand(ta, case.get("pre_a")), oc.build_operand(tb, case.get("pre_b")))
            viewT = oc.ResultView(RT)
            k0, kT = lib.kind_of(R0), lib.kind_of(RT)
            a0 = float(R0) if k0 not in ("empty", "whole") else 0.0
            aT = float(RT) if kT not in ("empty", "whole") else 0.0
    except BaseException as exc:
        ctx.violation("similarity", "raised", case, "%s %s %s with T=%r: %r" % (lib.spec_kind(sa), op, lib.spec_kind(sb), T, exc),
                      innermost_shapepy_frame(exc))
        return
    if k0 != kT:
        ctx.violation("similarity", "result-kind-changes", case, "%s without T, %s with T=%r" % (k0, kT, T), where)
    scale_area = max(abs(a0), 1e-300) * s * s
    # Green's theorem far from the origin cancels terms of size shift * extent
    ext = max([rg.curve_size(c) for c in ca + cb] + [0.0]) * s
    # (rational data: coordinates are capped at denominator 1e9, i.e. moved by <= 1e-18)
    cancel = 1e-13 * (shift + ext) * ext if not exact else 1e-15 * ext
    # vertices closer than the library's absolute point tolerance (1e-9) are
    # identified when pieces are chained: the boundary may move by that much
    # (and a rational coordinate of size ~1e6 capped at denominator 1e9 can move by up to ~1e-9)
    cancel += 2e-8 * ext
    if curved:
        # a piece between two crossings may be degree-reduced within the
        # library's *absolute* clean() tolerance (it then moves by up to ~7e-5
        # whatever the unit of the drawing): area allowance deviation x extent,
        # the same as for operands in C08 / C11
        cancel += 7e-5 * ext * (1 + s)
    if abs(aT - a0 * s * s) > (1e-9 if not curved else 1e-5) * max(scale_area, abs(aT)) + cancel + 1e-300:
        ctx.violation("similarity", "area-does-not-scale", case, "area %r without T, %r with T (factor^2 = %r)" % (a0, aT, s * s), where)
    # point-wise: T(p) in T(A) op T(B)  iff  p in model
    curves_all = ca + cb
    if curves_all:
        margin = (oc.MARGIN_CURVED if curved else probes.MARGIN)
        margin = max(margin, margin / s) if s < 1 else margin  # >= the absolute margin after scaling
        pts = oc.query_points(curves_all, case["us"], curved, max_witness=40)
        for p, tag in pts:
            if not region.clear(p, margin):
                continue
            q = fn(p if not exact else (F(p[0]).limit_denominator(10**6), F(p[1]).limit_denominator(10**6)))
            if exact:
                p = (F(p[0]).limit_denominator(10**6), F(p[1]).limit_denominator(10**6))
                if not region.clear(p, margin):
                    continue
            truth = region.contains(p)
            try:
                with call_limit(60):
                    got = viewT.member((float(q[0]), float(q[1])) if not exact else q)
            except BaseException as exc:
                ctx.violation("similarity", "membership-raised", case, repr(exc), innermost_shapepy_frame(exc))
                break
            if got is not truth:
                ctx.violation("similarity", "wrong-region-after-T", case,
                              "p=%r (%s) T(p)=%r: model %r, library %r; T=%r; result kind %s" % (rg.fl(p), tag, rg.fl(q), truth, got, T, kT), where)
                break
    # containment is invariant
    if case.get("subset") and sa["k"] not in ("empty", "whole") and sb["k"] not in ("empty", "whole"):
        try:
            truth, nw = c03.subset_truth(RB, RA, ca + cb)
        except rg.Degenerate:
            return
        if nw:
            ctx.count("stratum:subset")
            try:
                with call_limit(240):
                    got0 = lib.build(sb) in lib.build(sa)
                    gotT = lib.build(tb) in lib.build(ta)
            except BaseException as exc:
                ctx.violation("similarity", "containment-raised", case, repr(exc), innermost_shapepy_frame(exc))
                return
            if gotT is not truth or got0 is not truth:
                ctx.violation("similarity", "containment-changes", case, "B in A: model %r, without T %r, with T %r (T=%r)" % (truth, got0, gotT, T), where)


# ------------------------------------------------------------------ strategies
@st.composite
def similarity(draw, exact):
    if exact:
        s = draw(st.sampled_from([F(1, 1000), F(1, 128), F(1, 10), F(1, 3), F(3, 4), F(1), F(7, 5), F(3), F(25), F(1000), F(10**5)]))
        t = st.one_of(st.integers(-10, 10), st.integers(-10**5, 10**5), st.builds(lambda n: F(n, 7), st.integers(-10**4, 10**4)),
                      st.sampled_from([10**6, -10**6, 10**6 + F(1, 3)]))
        return {"s": s, "quarter": draw(st.integers(0, 3)), "tx": draw(t), "ty": draw(t)}
    e = draw(st.floats(-3.0, 5.0))
    s = round(10.0 ** e, 6) if draw(st.integers(0, 3)) else 1.0
    big = draw(st.integers(0, 9)) == 0
    lim = 1e6 if big else draw(st.sampled_from([10.0, 1e3, 1e5]))
    return {"s": s, "angle": draw(st.floats(0, 6.283)) if draw(st.booleans()) else draw(st.sampled_from([0.0, math.pi / 2, math.pi])),
            "tx": round(draw(st.floats(-1, 1)) * lim, 3), "ty": round(draw(st.floats(-1, 1)) * lim, 3)}


@st.composite
def cases(draw, mode):
    if mode == "rational":
        base = draw(oc.operand_pair(False, nk=draw(st.sampled_from(["int", "frac"]))))
    elif mode == "float":
        base = draw(oc.operand_pair(False, nk="float"))
    else:
        base = draw(oc.operand_pair(True))
    if mode == "rational" and draw(st.booleans()):
        # a drawing of unit size (the generators work on a lattice of size
        # 10..60): together with factors down to 1e-3 this reaches
        # millimetre-sized polygons in metre units, exactly
        pre = F(1, 60) if base["nk"] == "int" else F(1, 10)
        base["a"] = lib.spec_map(base["a"], lambda q: (q[0] * pre, q[1] * pre))
        base["b"] = lib.spec_map(base["b"], lambda q: (q[0] * pre, q[1] * pre))
        base["unit_size"] = True
    base["op"] = draw(st.sampled_from(oc.OPS))
    base["T"] = draw(similarity(mode == "rational"))
    base["subset"] = draw(st.integers(0, 2)) == 0
    return base


def parts(tier):
    q = tier == "quick"
    return [
        Part("rational", judge, cases("rational"), n=500 if q else 20000, budget_s=70 if q else 2400),
        Part("float", judge, cases("float"), n=400 if q else 15000, budget_s=70 if q else 2400),
        Part("curved", judge, cases("curved"), n=64 if q else 1500, budget_s=80 if q else 3000, shards=16),
    ]
