"""C04 -- Area and polynomial moments equal the true integrals over the region"""
from __future__ import annotations

from fractions import Fraction as F

from hypothesis import strategies as st

from .. import lib
from .. import refgeom as rg
from .. import strategies as S
from ..engine import Part, call_limit, innermost_shapepy_frame

PROPERTY = "C04"
RULE = (
    "Hypothesis draws a shape of every kind (bounded/unbounded Simple, Connected, Disjoint; int/Fraction/float/"
    "mixed; degrees 1..3; non-symmetric and away from the origin) and exponent pairs (a,b). Oracle: exact "
    "polynomial boundary integral of the reference (Fractions for rational data) summed over the boundary curves. "
    "Rational polygons must give the exact rational (type int/Fraction); float polygons 1e-11 relative to the sum "
    "of absolute piece contributions; curved boundaries exact-to-rounding where the integrand degree is within the "
    "degree of exactness of the documented node count (always for the area); where it is not exact the error may not exceed the error of the documented default rule itself (open Newton-Cotes on 4+a+b+degree nodes, evaluated exactly by the reference, summed over the segments without cancellation), "
    "and 1e-9 when nnodes is raised to cover the integrand. An evaluation is one (shape, a, b, entry "
    "point); it is non-trivial when (a,b) != (0,0) or the shape has several boundary curves or a curved segment."
)
MANDATORY = ["kind:simple+", "kind:simple-", "kind:connected+", "kind:connected-", "kind:disjoint+", "kind:disjoint-",
             "exact-rational", "float-polygon", "curved-exact-rule", "curved-quadrature", "curved-raised-nnodes", "after-transform"]
CONSTANTS = {"float_rel": 1e-11, "raised_rel": 1e-9}


def _abs_scale(curves, a, b):
    """sum over segments of  int |x^(a+1) y^b y'| dt / (a+1)  (floats)"""
    total = 0.0
    for c in curves:
        for seg in c:
            sf = [rg.fl(p) for p in seg]
            d = rg.bez_deriv(sf)
            n = 16 if len(seg) > 2 else 8
            acc = 0.0
            for k in range(n):
                t = (k + 0.5) / n
                p = rg.bez_eval(sf, t)
                dy = rg.bez_eval(d, t)[1]
                acc += abs(p[0] ** (a + 1) * p[1] ** b * dy)
            total += acc / n
    return total / (a + 1) + 1e-300


_NC = {}


def _open_nc_weights(n):
    """weights of the interpolatory rule on the library's open nodes
    (2k+1)/(2n), k = 0..n-1, on [0, 1] (exact Fractions)"""
    if n not in _NC:
        nodes = [F(2 * k + 1, 2 * n) for k in range(n)]
        # solve sum_k w_k u_k^j = 1/(j+1), j = 0..n-1 (Gauss-Jordan, exact)
        M = [[u ** j for u in nodes] + [F(1, j + 1)] for j in range(n)]
        for c in range(n):
            piv = next(r for r in range(c, n) if M[r][c] != 0)
            M[c], M[piv] = M[piv], M[c]
            pv = M[c][c]
            M[c] = [v / pv for v in M[c]]
            for r in range(n):
                if r != c and M[r][c] != 0:
                    f = M[r][c]
                    M[r] = [vr - f * vc for vr, vc in zip(M[r], M[c])]
        _NC[n] = (nodes, [M[r][n] for r in range(n)])
    return _NC[n]


def documented_rule_error(curves, a, b):
    """sum over the segments of |Q_n(f) - I(f)| for the documented default
    rule (open Newton-Cotes on 4+a+b+degree nodes for the shape integral of
    x^a y^b, i.e. f = x^(a+1) y^b y' / (a+1)): what 'quadrature accuracy'
    means where the rule is not exact.  A library at least as accurate as its
    documented rule stays within it; no cancellation between segments is
    assumed."""
    total = 0.0
    for c in curves:
        for seg in c:
            deg = len(seg) - 1
            xs = [rg.ex(q[0]) for q in seg] if rg.curve_is_exact([seg]) else [F(float(q[0])) for q in seg]
            ys = [rg.ex(q[1]) for q in seg] if rg.curve_is_exact([seg]) else [F(float(q[1])) for q in seg]
            px, py = rg.bez_to_poly(xs), rg.bez_to_poly(ys)
            integrand = rg.pmul(rg.pmul(rg.ppow(px, a + 1), rg.ppow(py, b)), rg.pder(py))
            exact = rg.pint01(integrand, True)
            nodes, w = _open_nc_weights(4 + a + b + deg)
            q = sum(wk * sum(cf * u ** i for i, cf in enumerate(integrand)) for u, wk in zip(nodes, w))
            total += abs(float(q - exact)) / (a + 1)
    return total


def _rule_exact(deg, a, b):
    """is the library's default rule (open Newton-Cotes, 4+a+b+deg nodes
    for the shape integral) exact for a segment of this degree?"""
    nn = 4 + a + b + deg
    integrand = deg * (a + b + 2) - 1
    return integrand <= (nn if nn % 2 == 1 else nn - 1)


def judge(ctx, case):
    spec = case["spec"]
    Sp = lib.sp()
    kind = lib.spec_kind(spec)
    try:
        with call_limit(60):
            shape = lib.build(spec)
    except BaseException as exc:
        ctx.violation("build", "constructor-raised", case, repr(exc), innermost_shapepy_frame(exc))
        return
    curves = lib.spec_curves(spec)
    degs = sorted({len(s) - 1 for c in curves for s in c})
    maxdeg = degs[-1]
    rational = all(rg.curve_is_exact(c) for c in curves)
    for (a, b) in case["exps"]:
        ref = lib.spec_moment(spec, a, b)
        scale = _abs_scale(curves, a, b)
        calls = [("IntegrateShape.polynomial", lambda: Sp.IntegrateShape.polynomial(shape, a, b))]
        if (a, b) == (0, 0):
            calls.append(("IntegrateShape.area", lambda: Sp.IntegrateShape.area(shape)))
            calls.append(("float", lambda: float(shape)))
        for name, fn in calls:
            sub = dict(spec=spec, exps=[[a, b]], entry=name)
            nontriv = (a, b) != (0, 0) or len(curves) > 1 or maxdeg > 1
            strata = ["kind:" + kind]
            try:
                with call_limit(120):
                    got = fn()
            except BaseException as exc:
                ctx.evaluated(sub, nontriv, strata)
                ctx.violation("integral", "raised", sub, repr(exc), innermost_shapepy_frame(exc))
                continue
            if maxdeg == 1 and rational:
                strata.append("exact-rational")
                ctx.evaluated(sub, nontriv, strata)
                if name != "float" and not (isinstance(got, (int, F)) and not isinstance(got, bool)):
                    ctx.violation("integral", "rational-polygon-result-not-rational", sub,
                                  "%s -> %r (%s)" % (name, got, type(got).__name__))
                    continue
                if name == "float":
                    ok = abs(got - float(ref)) <= 1e-12 * scale
                else:
                    ok = got == ref
                if not ok:
                    ctx.violation("integral", "exact-value", sub, "%s(%d,%d) = %r, exact %r" % (name, a, b, got, ref), kind)
            elif maxdeg == 1:
                strata.append("float-polygon")
                ctx.evaluated(sub, nontriv, strata)
                if abs(float(got) - float(ref)) > 1e-11 * scale:
                    ctx.violation("integral", "float-polygon-value", sub,
                                  "%s(%d,%d) = %r, reference %r, scale %r" % (name, a, b, got, float(ref), scale), kind)
            else:
                exact_rule = all(_rule_exact(d, a, b) for d in degs)
                strata.append("curved-exact-rule" if exact_rule else "curved-quadrature")
                ctx.evaluated(sub, nontriv, strata)
                # where the default rule is not exact its error is a property
                # of the quadrature, not of the implementation (observed up to
                # 6e-3 of the absolute contributions at a+b = 4 on cubics): only
                # gross errors are judged here; the raised-nnodes check decides
                if exact_rule:
                    tol = 1e-11 * scale
                else:
                    # "quadrature accuracy": at least as accurate as the
                    # documented default rule is on these very segments
                    # (2 %: the library evaluates that rule in floats, the
                    # reference in exact arithmetic)
                    tol = 1e-9 * scale + 1.02 * documented_rule_error(curves, a, b)
                if abs(float(got) - float(ref)) > tol:
                    ctx.violation("integral", "curved-exact" if exact_rule else "curved-quadrature", sub,
                                  "%s(%d,%d) = %r, reference %r, tol %r" % (name, a, b, float(got), float(ref), tol), kind)
        # raised node count: the rule covers the integrand -> exact to rounding
        need = maxdeg * (a + b + 2) + 1
        if maxdeg > 1 and need <= 13:
            sub = dict(spec=spec, exps=[[a, b]], entry="polynomial(nnodes=%d)" % need)
            ctx.evaluated(sub, True, ["curved-raised-nnodes", "kind:" + kind])
            try:
                with call_limit(120):
                    got = Sp.IntegrateShape.polynomial(shape, a, b, need)
                if abs(float(got) - float(ref)) > 1e-9 * scale:
                    ctx.violation("integral", "raised-nnodes", sub,
                                  "polynomial(%d,%d,nnodes=%d) = %r, reference %r, scale %r" % (a, b, need, float(got), float(ref), scale), kind)
            except BaseException as exc:
                ctx.violation("integral", "raised", sub, repr(exc), innermost_shapepy_frame(exc))
    # the same object after an in-place transformation: the integrals must
    # follow (nothing cached from the evaluations above may survive)
    tf = case.get("tf")
    if tf:
        from .c09 import apply_step, model_step

        try:
            with call_limit(120):
                apply_step(shape, tf)
                moved = model_step([lib.tup(c) for c in curves], tf)
                for (a, b) in case["exps"]:
                    if not all(_rule_exact(d, a, b) for d in degs):
                        continue
                    got = Sp.IntegrateShape.polynomial(shape, a, b)
                    ref = sum(rg.curve_moment(c, a, b) for c in moved)
                    sc = _abs_scale(moved, a, b)
                    sub = dict(spec=spec, exps=[[a, b]], tf=tf, entry="polynomial-after-" + tf["k"])
                    ctx.evaluated(sub, True, ["after-transform", "after-" + tf["k"]])
                    exact_tf = rational and maxdeg == 1 and tf["k"] != "rotate" and all(rg.is_exact(v) for v in tf.get("v", []) + tf.get("s", []))
                    bad = (got != ref) if exact_tf else abs(float(got) - float(ref)) > 1e-9 * sc
                    if bad:
                        ctx.violation("integral", "stale-after-" + tf["k"], sub,
                                      "polynomial(%d,%d) after %r = %r, reference %r" % (a, b, tf, got, ref), kind)
                        break
        except BaseException as exc:
            ctx.violation("integral", "raised-after-transform", dict(spec=spec, tf=tf), repr(exc), innermost_shapepy_frame(exc))
        return
    # per-curve integrals
    try:
        with call_limit(120):
            jl = sorted(float(Sp.IntegrateJordan.area(j)) for j in shape.jordans)
            a, b = case["exps"][0]
            vl = sorted(float(Sp.IntegrateJordan.vertical(j, a + 1, b)) for j in shape.jordans)
    except BaseException as exc:
        ctx.violation("integral", "raised", dict(spec=spec, entry="IntegrateJordan"), repr(exc), innermost_shapepy_frame(exc))
        return
    sub = dict(spec=spec, exps=[[a, b]], entry="IntegrateJordan")
    ctx.evaluated(sub, True, ["kind:" + kind, "per-curve"])
    rl = sorted(float(rg.curve_area(c)) for c in curves)
    for g, r in zip(jl, rl):
        if abs(g - r) > 1e-11 * _abs_scale(curves, 0, 0):
            ctx.violation("integral", "IntegrateJordan.area", sub, "areas %r reference %r" % (jl, rl))
            break
    if all(_rule_exact(d, a, b) for d in degs):
        rv = sorted(float((a + 1) * rg.curve_moment(c, a, b)) for c in curves)
        for g, r in zip(vl, rv):
            if abs(g - r) > 1e-11 * (a + 1) * _abs_scale(curves, a, b):
                ctx.violation("integral", "IntegrateJordan.vertical", sub, "vertical(%d,%d) %r reference %r" % (a + 1, b, vl, rv))
                break


@st.composite
def cases(draw, maxsum):
    nk, deg = draw(S.numkind_and_degrees(curved_weight=1))
    R = S.base_radius(nk)
    off = st.floats(-2.0, 2.0)
    center = (round(draw(off) * R, 0), round(draw(off) * R, 0))
    spec = draw(S.shape_spec(nk, deg, center=center, kinds=S.KINDS[2:], templates=False))
    exps = []
    for _ in range(3):
        s = draw(st.integers(0, maxsum))
        a = draw(st.integers(0, s))
        exps.append([a, s - a])
    if draw(st.booleans()):
        exps[0] = [0, 0]
    out = {"nk": nk, "deg": list(deg), "spec": spec, "exps": exps}
    if draw(st.integers(0, 2)) == 0:
        from .c09 import step

        out["tf"] = draw(step(nk in ("int", "frac")))
    return out


def parts(tier):
    q = tier == "quick"
    return [Part("moments", judge, cases(6 if q else 8), n=3000 if q else 60000, budget_s=80 if q else 1800)]
