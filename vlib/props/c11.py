"""C11 -- A call that raises or is interrupted leaves its operands intact"""
from __future__ import annotations

import copy as _copy
from fractions import Fraction as F

from hypothesis import strategies as st

from .. import faults, lib
from .. import opcases as oc
from .. import refgeom as rg
from .. import strategies as S
from ..engine import Part, call_limit, innermost_shapepy_frame
from . import c08

PROPERTY = "C11"
LEVEL = "fault_enumeration"
RULE = (
    "Part 'crash-points': Hypothesis draws operands (rational and float polygons of every kind, incl. the mandatory "
    "Connected-in-Simple containment reached directly and through the | and & short-cuts, and pairs of unbounded simple "
    "shapes with nested / apart / crossing holes; small curved shapes), one "
    "non-mutating operation (| & - ^ ~, `in` for shape/curve/point, ==, float, integrals, box, copy, deepcopy, plot) "
    "and fractions that select crash points: a dry run under sys.settrace counts the Python calls made inside "
    "shapepy/pynurbs and marks those inside the dynamic extent of an in-place mutation (invert, split, clean, the "
    "segments setter, move/scale/rotate); the operation is re-run on fresh operands with an injector that raises a "
    "BaseException subclass at the first line of the k-th call (half of the k inside mutation windows, half anywhere). "
    "After the exception has propagated every operand must still carry its boundary (curves, orientation, exact "
    "area, re-split vertices on the original curves) and answer area and membership queries as before. Part "
    "'invalid-arguments' enumerates exhaustively a grid of invalid arguments for move/scale/rotate on Simple / "
    "Connected / Disjoint, rational and float: a call that raises must leave the control points bit-identical. "
    "Non-trivial: the fault fired inside the operation; faults inside a mutation window are counted separately."
)
MANDATORY = ["fired", "inside-mutation-window", "connected-in-simple", "both-unbounded", "op:binary", "op:in", "op:eq", "op:other", "invalid-arguments"]

OPS = ["|", "&", "-", "^", "~", "in", "jordan-in", "point-in", "eq", "float", "moment", "box", "copy", "deepcopy", "plot"]


def _probe_answers(shape, pts):
    k = lib.kind_of(shape)
    if k in ("empty", "whole"):
        return (k,)
    return (k, lib.sp().IntegrateShape.area(shape), tuple(p in shape for p in pts))


def judge(ctx, case):
    sa, sb, op = case["a"], case["b"], case["op"]
    ca, cb = lib.spec_curves(sa), lib.spec_curves(sb)
    verdict, ncross = oc.classify_pair(ca, cb) if ca and cb else ("general", 0)
    if verdict in ("ill", "contact"):
        ctx.count("skipped-" + verdict)
        return
    all_rational = all(rg.curve_is_exact(c) and rg.curve_is_polygon(c) for c in ca + cb)
    name = op if op in ("|", "&", "-", "^") else op
    pts = [(1.25, -0.5), (7.5, 6.25), (-6.75, 3.5), (0.125, 11.0)]

    def make():
        return lib.build(sa), lib.build(sb)

    def operation(A, B):
        return lambda: c08.run_operation(op, A, B)

    try:
        with call_limit(300):
            A0, B0 = make()
            before = (_probe_answers(A0, pts), _probe_answers(B0, pts))
            A, B = make()
            total, window, res = faults.dry_run(operation(A, B))
    except BaseException as exc:
        ctx.count("dry-run-failed:" + type(exc).__name__)
        return
    if res[0] == "raised":
        # the operation raises by itself: the operands must be intact too
        ks = [None]
    else:
        if total == 0:
            ctx.count("no-library-call")
            return
        ks = []
        for i, u in enumerate(case["us"]):
            if window and i % 2 == 0:
                ks.append(window[int(u * len(window)) % len(window)])
            else:
                ks.append(1 + int(u * total) % total)
    cis = sa["k"] == "simple" and sb["k"] == "connected" and op in ("in", "|", "&", "-", "^")
    group = "op:binary" if op in ("|", "&", "-", "^") else "op:in" if op in ("in", "jordan-in", "point-in") else "op:eq" if op == "eq" else "op:other"
    for k in ks:
        sub = dict(case, k=k)
        try:
            with call_limit(300):
                A, B = make()
                if k is None:
                    status, out, where = "raised-without-fault", res[1], None
                    try:
                        c08.run_operation(op, A, B)
                    except BaseException:
                        pass
                else:
                    status, out, where = faults.run_with_fault(operation(A, B), k)
        except BaseException as exc:
            ctx.count("harness-timeout-or-error:" + type(exc).__name__)
            continue
        strata = [group]
        if status in ("fired-and-propagated", "fired-and-swallowed"):
            strata.append("fired")
        if k is not None and k in set(window):
            strata.append("inside-mutation-window")
        if cis:
            strata.append("connected-in-simple")
        if sa["k"] == "simple" and sb["k"] == "simple" and ca and cb and rg.curve_area(ca[0]) < 0 and rg.curve_area(cb[0]) < 0:
            strata.append("both-unbounded")
        ctx.evaluated(sub, status.startswith("fired"), strata)
        ctx.count("status:" + status)
        if status == "not-reached":
            continue
        label = "%s at %s" % (op, where or "its own exception")
        for nm, spec, obj, bef in (("A", sa, A, before[0]), ("B", sb, B, before[1])):
            try:
                with call_limit(120):
                    msg = c08.operand_intact(spec, obj, all_rational)
                    after = _probe_answers(obj, pts) if msg is None else None
            except BaseException as exc:
                msg = "operand unusable afterwards: %r" % (exc,)
                after = None
            if msg:
                ctx.violation("crash-point", "operand-corrupted", sub,
                              "%s (call %s of %d, status %s): %s: %s" % (label, k, total, status, nm, msg), group + (":window" if "inside-mutation-window" in strata else ""))
                return
            # a (completed or interrupted) operator re-splits a curved operand
            # in place and may degree-reduce a short piece within the
            # documented clean() tolerance: same area allowance as C08
            curved_op = any(len(sg) > 2 for c in lib.spec_curves(spec) for sg in c)
            atol = 2.5e-4 * max([rg.curve_size(c) for c in lib.spec_curves(spec)] or [1.0]) if curved_op else 0.0
            same = after[0] == bef[0] and (len(after) == 1 or (after[2] == bef[2] and (abs(after[1] - bef[1]) <= F(1, 10**14) * max(1, abs(bef[1])) if all_rational else abs(float(after[1]) - float(bef[1])) <= 1e-9 * max(1.0, abs(float(bef[1]))) + atol)))
            if not same:
                ctx.violation("crash-point", "operand-answers-changed", sub,
                              "%s (call %s of %d): %s answered %r before and %r after" % (label, k, total, nm, bef, after), group)
                return


# ------------------------------------------------------------------ invalid arguments
def _arg_grid():
    import decimal

    # values float() accepts but that cannot be combined with a Fraction or
    # float coordinate (numeric str / bytes, Decimal), and plain junk
    bad = ["3", "a", None, 1j, [1, 2], {}, decimal.Decimal("3"), b"2"]
    shapes = ["simple", "connected", "disjoint"]
    out = []
    for sk in shapes:
        for num in ("rational", "float"):
            for b in bad:
                for good in (2, F(3, 2), 0.5):
                    out.append(dict(shape=sk, num=num, call="scale", args=[good, b]))
                    out.append(dict(shape=sk, num=num, call="scale", args=[b, good]))
                    out.append(dict(shape=sk, num=num, call="move", args=[good, b]))
                    out.append(dict(shape=sk, num=num, call="move", args=[b, good]))
                out.append(dict(shape=sk, num=num, call="move", args=[[b, 1]]))
                out.append(dict(shape=sk, num=num, call="move", args=[b]))
                out.append(dict(shape=sk, num=num, call="rotate", args=[b]))
                out.append(dict(shape=sk, num=num, call="rotate", args=[b, True]))
            out.append(dict(shape=sk, num=num, call="move", args=[1, 2, 3]))
            out.append(dict(shape=sk, num=num, call="move", args=[]))
            out.append(dict(shape=sk, num=num, call="scale", args=[2]))
            out.append(dict(shape=sk, num=num, call="rotate", args=[]))
    return out


def _grid_shape(kind, num):
    conv = (lambda v: v) if num == "rational" else (lambda v: float(v))
    P = lambda vs: rg.polygon_curve([(conv(F(a)), conv(F(b))) for a, b in vs])
    sq = lambda x, y, s: [(x, y), (x + s, y), (x + s, y + s), (x, y + s)]
    if kind == "simple":
        return {"k": "simple", "curve": P([(1, 2), (5, 1), (F(7, 2), 6)])}
    if kind == "connected":
        return {"k": "connected", "curves": [P(sq(1, 1, 10)), rg.curve_reverse(P(sq(3, 4, F(5, 2))))]}
    return {"k": "disjoint", "parts": [{"k": "simple", "curve": P(sq(1, 1, 3))}, {"k": "simple", "curve": P([(6, 1), (9, 2), (7, 5)])}]}


def judge_invalid(ctx, case):
    spec = _grid_shape(case["shape"], case["num"])
    ctx.evaluated(case, True, ["invalid-arguments", "call:" + case["call"]])
    try:
        shape = lib.build(spec)
        snap = lib.structural_snapshot(shape)
    except BaseException as exc:
        ctx.violation("invalid", "constructor-raised", case, repr(exc))
        return
    try:
        with call_limit(60):
            getattr(shape, case["call"])(*case["args"])
        ctx.count("accepted")
        return
    except BaseException as exc:
        raised = exc
    if lib.structural_snapshot(shape) != snap:
        ctx.violation("invalid", "rejected-call-changed-the-shape", case,
                      "%s(%s) raised %r and left the %s %s shape changed" % (case["call"], ", ".join(map(repr, case["args"])), raised, case["num"], case["shape"]),
                      case["call"])
    # the boundary curves themselves reject the same arguments atomically
    try:
        j = lib.build(spec).jordans[0]
        before = repr(lib.read_jordan(j))
        try:
            getattr(j, case["call"])(*case["args"])
        except BaseException:
            if repr(lib.read_jordan(j)) != before:
                ctx.violation("invalid", "rejected-call-changed-the-curve", case, "JordanCurve.%s%r" % (case["call"], tuple(case["args"])), case["call"])
    except BaseException:
        pass


# ------------------------------------------------------------------ strategies
@st.composite
def cases(draw, mode):
    if mode == "cis":
        # Connected in Simple: a hollow shape inside / across a bigger simple one
        nk = draw(st.sampled_from(["int", "frac", "float"]))
        R = S.base_radius(nk)
        b = draw(S.connected_spec(nk, (1,), (0.0, 0.0), 0.5 * R, True, (1, 2)))
        big = draw(st.booleans())
        a = draw(S.simple_spec(nk, (1,), (0.0, 0.0), R * (2.6 if big else 0.8), False))
        base = {"a": a, "b": b, "op": draw(st.sampled_from(["in", "in", "|", "&", "-", "^"]))}
    elif mode == "uu":
        # two unbounded simple shapes whose holes are nested, apart or crossing:
        # containment and the operators' short-cuts work on complements
        nk = draw(st.sampled_from(["int", "frac", "float"]))
        R = S.base_radius(nk)
        a = draw(S.simple_spec(nk, (1,), (0.0, 0.0), R * draw(st.sampled_from([0.4, 1.0, 2.2])), True))
        off = draw(st.sampled_from([(0.0, 0.0), (0.0, 0.0), (0.6 * R, 0.3 * R), (3.0 * R, 0.0)]))
        b = draw(S.simple_spec(nk, (1,), off, R * draw(st.sampled_from([0.4, 1.0, 2.2])), True))
        base = {"a": a, "b": b, "op": draw(st.sampled_from(["in", "in", "|", "&", "-", "^", "eq"]))}
    elif mode == "curved":
        base = draw(oc.operand_pair(True, kinds=["simple+", "simple+", "simple-"]))
        base = {"a": base["a"], "b": base["b"], "op": draw(st.sampled_from(["&", "|", "in", "eq", "point-in", "jordan-in"]))}
    else:
        base = draw(oc.operand_pair(False))
        base = {"a": base["a"], "b": base["b"], "op": draw(st.sampled_from(OPS))}
    base["us"] = draw(st.lists(st.floats(0, 0.999999), min_size=4, max_size=4))
    return base


def parts(tier):
    q = tier == "quick"
    return [
        Part("crash-points", judge, cases("any"), n=400 if q else 8000, budget_s=80 if q else 3000, shards=16),
        Part("connected-in-simple", judge, cases("cis"), n=160 if q else 3000, budget_s=80 if q else 3000, shards=16),
        Part("unbounded-pairs", judge, cases("uu"), n=96 if q else 2000, budget_s=60 if q else 2000, shards=16),
        Part("crash-points-curved", judge, cases("curved"), n=32 if q else 300, budget_s=80 if q else 3000, shards=16),
        Part("invalid-arguments", judge_invalid, cases=_arg_grid, exhaustive=True),
    ]
