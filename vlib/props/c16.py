"""C16 -- Primitive factories build the documented positive shapes or raise ValueError"""
from __future__ import annotations

import math
from fractions import Fraction as F

from hypothesis import strategies as st

from .. import lib
from .. import refgeom as rg
from .. import strategies as S
from ..engine import Part, call_limit, innermost_shapepy_frame

PROPERTY = "C16"
RULE = (
    "Hypothesis draws factory parameters (side/radius of int, Fraction, float over 1e-3..1e3; centres of every "
    "numeric kind; nsides 3..400; ndivangle 4..128; ccw and cw vertex lists for polygon) and the result is compared "
    "with closed forms (vertices, area, orientation, membership of centre and far points, circle radial band and "
    "closed-form area). Invalid parameters are a finite grid enumerated exhaustively. A case is non-trivial when "
    "the centre is not the origin or the size is not the default 1 (invalid-grid cases count as non-trivial when "
    "the parameter is not the suite's own -1/0/'asd')."
)
MANDATORY = ["square", "triangle", "regular", "regular4", "circle", "polygon-ccw", "polygon-cw", "invalid"]
REL = 1e-12


def _isrational(x):
    return isinstance(x, (int, F)) and not isinstance(x, bool)


def _close(a, b, scale):
    return abs(float(a) - float(b)) <= REL * max(1.0, scale) + 1e-15


def _cyclic_equal(got, want, exact, scale):
    n = len(want)
    if len(got) != n:
        return False
    for r in range(n):
        ok = True
        for i in range(n):
            g, w = got[(i + r) % n], want[i]
            if exact:
                if g[0] != w[0] or g[1] != w[1]:
                    ok = False
                    break
            elif not (_close(g[0], w[0], scale) and _close(g[1], w[1], scale)):
                ok = False
                break
        if ok:
            return True
    return False


def _common(ctx, sub, case, shape, area, center, far, scale, extent=None):
    """SimpleShape, ccw, area, centre inside, far points outside"""
    Sp = lib.sp()
    if type(shape) is not Sp.SimpleShape:
        ctx.violation(sub, "not-a-SimpleShape", case, type(shape).__name__)
        return False
    got = float(shape)
    if not (got > 0):
        ctx.violation(sub, "not-positive", case, "float(shape)=%r" % got)
    # Green's theorem far from the origin cancels terms of size scale*extent
    extent = math.sqrt(abs(float(area))) if extent is None else extent
    if abs(got - float(area)) > 1e-12 * (abs(float(area)) + scale * extent):
        ctx.violation(sub, "area", case, "float(shape)=%r expected %r" % (got, float(area)))
    if float(shape.jordans[0]) <= 0:
        ctx.violation(sub, "orientation", case, "float(jordan)=%r" % float(shape.jordans[0]))
    if center is not None and center not in shape:
        ctx.violation(sub, "centre-not-contained", case, repr(center))
    for p in far:
        if p in shape:
            ctx.violation(sub, "far-point-contained", case, repr(p))
    return True


def _verts(shape):
    return [(lib.num(v[0]), lib.num(v[1])) for v in shape.jordans[0].vertices]


def _call(ctx, sub, case, fn):
    try:
        with call_limit(60):
            return True, fn()
    except BaseException as exc:  # a valid call must not raise
        ctx.violation(sub, "raised-on-valid-input", case, repr(exc), innermost_shapepy_frame(exc))
        return False, None


def _types_exact(ctx, sub, case, verts):
    for v in verts:
        for c in v:
            if not _isrational(c):
                ctx.violation(sub, "rational-input-became-float", case, "%r (%s)" % (c, type(c).__name__))
                return
            if isinstance(c, F) and not (isinstance(c.numerator, int) and isinstance(c.denominator, int)):
                ctx.violation(sub, "malformed-fraction", case, repr(c))
                return


# ------------------------------------------------------------------ judges
def judge_square(ctx, case):
    side, (cx, cy) = case["side"], case["center"]
    P = lib.sp().Primitive
    ok, shape = _call(ctx, "square", case, lambda: P.square(side, (cx, cy)))
    nontriv = (cx, cy) != (0, 0) or side != 1
    ctx.evaluated(case, nontriv, ["square"])
    if not ok:
        return
    exact = all(map(_isrational, (side, cx, cy)))
    h = F(side) / 2 if exact else side / 2
    want = [(cx + h, cy + h), (cx - h, cy + h), (cx - h, cy - h), (cx + h, cy - h)]
    scale = max(abs(float(cx)), abs(float(cy)), float(side))
    s = float(side)
    far = [(float(cx) + 2 * s, float(cy)), (float(cx), float(cy) - 2 * s), (float(cx) - 0.51 * s, float(cy) + 0.51 * s)]
    area = F(side) ** 2 if _isrational(side) else side * side
    if not _common(ctx, "square", case, shape, area, (cx, cy), far, scale):
        return
    got = _verts(shape)
    if not _cyclic_equal(got, want, exact, scale):
        ctx.violation("square", "vertices", case, "got %r want %r" % (got, want))
    if exact:
        _types_exact(ctx, "square", case, got)
    inner = (float(cx) + 0.49 * s, float(cy) - 0.49 * s)
    if inner not in shape:
        ctx.violation("square", "corner-region-not-contained", case, repr(inner))


def judge_triangle(ctx, case):
    side, (cx, cy) = case["side"], case["center"]
    P = lib.sp().Primitive
    ok, shape = _call(ctx, "triangle", case, lambda: P.triangle(side, (cx, cy)))
    ctx.evaluated(case, (cx, cy) != (0, 0) or side != 1, ["triangle"])
    if not ok:
        return
    exact = all(map(_isrational, (side, cx, cy)))
    want = [(cx, cy), (cx + side, cy), (cx, cy + side)]
    scale = max(abs(float(cx)), abs(float(cy)), float(side))
    s = float(side)
    far = [(float(cx) + 2 * s, float(cy) + 2 * s), (float(cx) - s, float(cy) + 0.2 * s), (float(cx) + 0.6 * s, float(cy) + 0.6 * s)]
    area = F(side) ** 2 / 2 if _isrational(side) else side * side / 2
    inside = (float(cx) + 0.25 * s, float(cy) + 0.25 * s)
    if not _common(ctx, "triangle", case, shape, area, inside, far, scale):
        return
    got = _verts(shape)
    if not _cyclic_equal(got, want, exact, scale):
        ctx.violation("triangle", "vertices", case, "got %r want %r" % (got, want))
    if exact:
        _types_exact(ctx, "triangle", case, got)
    if (cx, cy) not in shape:
        ctx.violation("triangle", "right-angle-vertex-not-contained", case, repr((cx, cy)))


def judge_regular(ctx, case):
    n, r, (cx, cy) = case["nsides"], case["radius"], case["center"]
    P = lib.sp().Primitive
    ok, shape = _call(ctx, "regular", case, lambda: P.regular_polygon(n, r, (cx, cy)))
    ctx.evaluated(case, (cx, cy) != (0, 0) or r != 1, ["regular", "regular4"] if n == 4 else ["regular"])
    if not ok:
        return
    rf = float(r)
    scale = max(abs(float(cx)), abs(float(cy)), rf)
    area = n / 2 * rf * rf * math.sin(rg.TAU / n)
    far = [(float(cx) + 1.01 * rf * math.cos(rg.TAU * (k + 0.5) / n), float(cy) + 1.01 * rf * math.sin(rg.TAU * (k + 0.5) / n))
           for k in range(0, n, max(1, n // 5))]
    far.append((float(cx) + 3 * rf, float(cy)))
    if not _common(ctx, "regular", case, shape, area, (cx, cy), far, scale):
        return
    got = _verts(shape)
    exact = n == 4 and all(map(_isrational, (r, cx, cy)))
    if exact:
        want = [(cx + r, cy), (cx, cy + r), (cx - r, cy), (cx, cy - r)]
        _types_exact(ctx, "regular", case, got)
    else:
        want = [(float(cx) + rf * math.cos(rg.TAU * k / n), float(cy) + rf * math.sin(rg.TAU * k / n)) for k in range(n)]
    if not _cyclic_equal(got, want, exact, scale):
        ctx.violation("regular", "vertices", case, "got %r want %r" % (got[:6], want[:6]))
    # inside points close to every other vertex
    for k in range(0, n, max(1, n // 4)):
        q = (float(cx) + 0.98 * rf * math.cos(rg.TAU * k / n), float(cy) + 0.98 * rf * math.sin(rg.TAU * k / n))
        if q not in shape:
            ctx.violation("regular", "interior-point-not-contained", case, repr(q))


def tiny_arcs(case) -> bool:
    """arcs so short that the library's absolute clean() tolerance (squared
    L2 error 1e-9) degree-reduces them: |P0 - 2Q + P1|^2/180 = (2 r sin^2 h /
    cos h)^2 / 180 below 2.2e-8 (safety factor 22 on the library constant)"""
    if "ndivangle" not in case:
        return False
    h = math.pi / case["ndivangle"]
    return 2 * float(case["radius"]) * math.sin(h) ** 2 / math.cos(h) < 2e-3


KNOWN_CLASSES = {"circle-arcs-below-clean-tolerance": tiny_arcs}


def judge_circle(ctx, case):
    n, r, (cx, cy) = case["ndivangle"], case["radius"], case["center"]
    P = lib.sp().Primitive
    if ctx.known_class(case, KNOWN_CLASSES):
        return
    ok, shape = _call(ctx, "circle", case, lambda: P.circle(r, (cx, cy), n))
    ctx.evaluated(case, (cx, cy) != (0, 0) or r != 1 or n != 16, ["circle"])
    if not ok:
        return
    rf, fx, fy = float(r), float(cx), float(cy)
    scale = max(abs(fx), abs(fy), rf)
    half = math.pi / n
    band_hi = rf * (math.cos(half) + 1 / math.cos(half)) / 2
    area = n * rf * rf * (math.sin(2 * half) / 2 + (2.0 / 3.0) * math.sin(half) * (1 / math.cos(half) - math.cos(half)))
    far = [(fx + 1.5 * rf, fy), (fx, fy - 1.2 * rf), (fx - band_hi * 1.01 * math.cos(half), fy - band_hi * 1.01 * math.sin(half))]
    if not _common(ctx, "circle", case, shape, area, (cx, cy), far, scale):
        return
    if not (float(shape) > math.pi * rf * rf * (1 - 1e-12)):
        ctx.violation("circle", "area-below-pi-r2", case, repr(float(shape)))
    jordan = shape.jordans[0]
    segs = jordan.segments
    if len(segs) != n:
        ctx.violation("circle", "segment-count", case, "%d segments for ndivangle=%d" % (len(segs), n))
        return
    tol = 1e-11 * max(scale, 1.0)
    ang_prev = None
    turned = 0.0
    for seg in segs:
        if seg.degree != 2:
            ctx.violation("circle", "segment-degree", case, "degree %d" % seg.degree)
            return
        ctrl = [(float(p[0]), float(p[1])) for p in seg.ctrlpoints]
        for t in (0, 0.25, 0.5, 0.75, 1):
            q = rg.bez_eval(ctrl, t)
            d = math.hypot(q[0] - fx, q[1] - fy)
            if d < rf - tol or d > band_hi + tol:
                ctx.violation("circle", "outside-radial-band", case, "t=%r dist=%r band=[%r,%r]" % (t, d, rf, band_hi))
                return
        for q in (ctrl[0], ctrl[2]):
            if abs(math.hypot(q[0] - fx, q[1] - fy) - rf) > tol:
                ctx.violation("circle", "end-point-off-circle", case, repr(q))
                return
        a0 = math.atan2(ctrl[0][1] - fy, ctrl[0][0] - fx)
        a1 = math.atan2(ctrl[2][1] - fy, ctrl[2][0] - fx)
        step = (a1 - a0) % rg.TAU
        if abs(step - 2 * half) > 1e-9:
            ctx.violation("circle", "arc-angle", case, "arc spans %r, expected %r" % (step, 2 * half))
            return
        turned += step
    if abs(turned - rg.TAU) > 1e-8:
        ctx.violation("circle", "not-one-turn", case, repr(turned))
    # points between chord and arc are inside (C02 decides the general case)
    mid = (fx + 0.5 * (rf * math.cos(half) + rf) * math.cos(half), fy + 0.5 * (rf * math.cos(half) + rf) * math.sin(half))
    # interior point well inside
    if (fx + 0.9 * rf * math.cos(half) * math.cos(half), fy + 0.9 * rf * math.cos(half) * math.sin(half)) not in shape:
        ctx.violation("circle", "interior-point-not-contained", case, "0.9*chord-midpoint")


def judge_circle_converges(ctx, case):
    """area decreases monotonically to pi r^2 as ndivangle grows"""
    r, (cx, cy) = case["radius"], case["center"]
    P = lib.sp().Primitive
    prev = None
    ctx.evaluated(case, True, ["circle-convergence"])
    ns = [n for n in (4, 6, 8, 12, 16, 24, 32, 64, 128, 256)
          if not (ctx.known and tiny_arcs(dict(ndivangle=n, radius=r)))]
    if len(ns) < 2:
        return
    for n in ns:
        ok, shape = _call(ctx, "circle", case, lambda: P.circle(r, (cx, cy), n))
        if not ok:
            return
        a = float(shape)
        if prev is not None and not (a < prev):
            ctx.violation("circle", "area-not-decreasing", case, "n=%d area=%r previous=%r" % (n, a, prev))
            return
        prev = a
    exact = math.pi * float(r) ** 2
    # closed form: area(n) - pi r^2 ~ (2/15) pi^5 r^2 / n^4 ; allow factor 2
    bound = 2 * (2.0 / 15.0) * math.pi**5 * float(r) ** 2 / ns[-1] ** 4 + 1e-12 * exact
    if not (0 <= prev - exact <= bound):
        ctx.violation("circle", "area-does-not-converge", case, "n=%d area=%r pi r^2=%r bound=%r" % (ns[-1], prev, exact, bound))


def judge_polygon(ctx, case):
    curve = lib.tup(case["curve"])
    verts = rg.curve_vertices(curve)
    P = lib.sp().Primitive
    ok, shape = _call(ctx, "polygon", case, lambda: P.polygon([tuple(v) for v in verts]))
    area = rg.curve_area(curve)
    ctx.evaluated(case, True, ["polygon-ccw" if area > 0 else "polygon-cw"])
    if not ok:
        return
    Sp = lib.sp()
    if type(shape) is not Sp.SimpleShape:
        ctx.violation("polygon", "not-a-SimpleShape", case, type(shape).__name__)
        return
    got = _verts(shape)
    if len(got) != len(verts):
        ctx.violation("polygon", "vertex-count", case, "%d vs %d" % (len(got), len(verts)))
        return
    for g, w in zip(got, verts):
        for gc, wc in zip(g, w):
            if gc != wc:
                ctx.violation("polygon", "vertex-value-or-order", case, "got %r want %r" % (g, w))
                return
            if _isrational(wc) != _isrational(gc):
                ctx.violation("polygon", "vertex-type", case, "got %r (%s) want %r (%s)" % (gc, type(gc).__name__, wc, type(wc).__name__))
                return
    a = float(shape)
    if (a > 0) != (area > 0) or abs(a - float(area)) > 1e-9 * max(1.0, abs(float(area))):
        ctx.violation("polygon", "signed-area", case, "float(shape)=%r expected %r" % (a, float(area)))
    # membership: ccw list = interior, cw list = exterior
    for w in rg.witness_points([curve], max_per_seg=1)[:8]:
        inside = rg.polygon_winding_exact(verts, w)[0] != 0
        want = inside if area > 0 else not inside
        if rg.curve_dist(curve, w) < 1e-4:
            continue
        if ((float(w[0]), float(w[1])) in shape) != want:
            ctx.violation("polygon", "membership", case, "point %r expected %r" % (rg.fl(w), want))
            return


def judge_invalid(ctx, case):
    P = lib.sp().Primitive
    f, args = case["factory"], case["args"]
    suite_like = args.get(case["bad"]) in (-1, 0, "asd")
    ctx.evaluated(case, not suite_like, ["invalid"])
    try:
        with call_limit(60):
            getattr(P, f)(**args)
    except ValueError:
        return
    except BaseException as exc:
        ctx.violation("invalid-" + f, "wrong-exception-type", case, repr(exc), type(exc).__name__)
        return
    ctx.violation("invalid-" + f, "accepted-invalid-parameter", case, "no exception for %r" % (args,))


# ------------------------------------------------------------------ parts
def _invalid_cases():
    bad_sizes = [0, -1, -2.5, F(-1, 2), 0.0, F(0), None, "a", "asd", "3", 1j, [1], (1, 2), {}]
    out = []
    for f, key in (("square", "side"), ("triangle", "side"), ("regular_polygon", "radius"), ("circle", "radius")):
        for v in bad_sizes:
            for center in ((0, 0), (F(1, 2), 3)):
                args = {key: v, "center": center}
                if f == "regular_polygon":
                    args["nsides"] = 5
                out.append(dict(factory=f, bad=key, args=args))
    for v in (2, 1, 0, -1, -3, None, "3", "asd"):
        for r in (1, F(3, 2), 2.5):
            out.append(dict(factory="regular_polygon", bad="nsides", args=dict(nsides=v, radius=r)))
    for v in (3, 2, 0, -1, -4, None, "8", "asd"):
        for r in (1, F(3, 2), 2.5):
            out.append(dict(factory="circle", bad="ndivangle", args=dict(ndivangle=v, radius=r)))
    return out


def _all_nsides():
    """every number of sides 3..400 (finite, enumerated): three radii/centres"""
    out = []
    for n in range(3, 401):
        for r, c in ((1, (0, 0)), (F(7, 2), (F(1, 3), -2)), (2.5, (10.25, -3.5))):
            out.append({"nsides": n, "radius": r, "center": c})
    return out


def parts(tier):
    q = tier == "quick"
    centre = st.tuples(S.any_numbers(50), S.any_numbers(50))
    centre0 = st.one_of(st.just((0, 0)), centre, centre)
    size = st.one_of(S.positive_numbers(0.001, 1000.0), S.positive_numbers(0.001, 1000.0),
                     st.sampled_from([10**4, 2.5e5, 10**6, 1e7, F(10**6, 3)]))
    sq = st.fixed_dictionaries({"side": size, "center": centre0})
    reg = st.fixed_dictionaries({"nsides": st.one_of(st.integers(3, 60), st.integers(3, 400), st.just(4)), "radius": size, "center": centre0})
    cir = st.fixed_dictionaries({"ndivangle": st.integers(4, 128), "radius": size, "center": centre0})
    conv = st.fixed_dictionaries({"radius": size, "center": centre0})

    @st.composite
    def poly(draw):
        nk = draw(st.sampled_from(S.NUMKINDS))
        c = draw(S.simple_curve(nk, (1,), cw=draw(st.booleans()), templates=True))
        return {"curve": c, "nk": nk}

    return [
        Part("square", judge_square, sq, n=1200 if q else 25000),
        Part("triangle", judge_triangle, sq, n=1200 if q else 25000),
        Part("regular", judge_regular, reg, n=1200 if q else 25000),
        Part("circle", judge_circle, cir, n=600 if q else 12000),
        Part("circle-convergence", judge_circle_converges, conv, n=100 if q else 2000),
        Part("polygon", judge_polygon, poly(), n=800 if q else 15000),
        Part("regular-every-nsides", judge_regular, cases=_all_nsides, exhaustive=True),
        Part("invalid", judge_invalid, cases=_invalid_cases, exhaustive=True),
    ]
