"""C03 -- `B in A` for curves and shapes means subset"""
from __future__ import annotations

from fractions import Fraction as F

from hypothesis import strategies as st

from .. import lib
from .. import refgeom as rg
from .. import strategies as S
from ..engine import Part, call_limit, innermost_shapepy_frame

PROPERTY = "C03"
RULE = (
    "Hypothesis draws ordered pairs (A, B) of shapes of every kind (Empty, Whole, Simple, Connected, Disjoint; "
    "bounded and unbounded; rational and float polygons, curved) related in five ways: B a copy of A scaled about "
    "its centre by f in {1/2, 3/4, 1, 5/4, 2}; B independent with overlapping box; B a sub-collection of A's "
    "components / A with a hole added or removed; the notch family (complement of an L against the complement of "
    "a square in its notch); B inscribed with all vertices on A's boundary. Oracle: witness points, one on each "
    "side of every boundary piece after cutting all boundaries at their mutual crossings (exact offsets for "
    "polygons): B is a subset of cl(A) iff every witness in B is in A. Also checked: A in A, Empty/Whole rules, "
    "the consequences (A|B and A&B have the regions of A and B on the witnesses when B in A), and J in A for "
    "closed curves J with boundary=True/False against piece midpoints. Non-trivial: the boxes overlap and the "
    "answer does not follow from orientation alone."
)
MANDATORY = ["operands-with-history", "truth:True", "truth:False", "unbounded-in-unbounded:False", "unbounded-in-unbounded:True", "all-vertices-on-boundary",
             "jordan-in-shape", "relation:scaled", "relation:independent", "relation:subcollection", "relation:notch",
             "singleton-operand", "curved"]


def jordan_touches_at_vertex(case) -> bool:
    """the closed curve (boundary curve `jordan_of_b` of B) meets the boundary
    of A at a vertex of either curve or along an edge (exact test, polygons):
    the open-set answer then hinges on a single contact point, which
    `_contains_jordan` never samples (contact class, D8)"""
    ca, cb = lib.spec_curves(case["a"]), lib.spec_curves(case["b"])
    if not ca or not cb or not all(rg.curve_is_polygon(c) for c in ca + cb):
        return False
    jc = cb[case.get("jordan_of_b", 0)]
    for seg in jc:
        for c in ca:
            for oseg in c:
                r = rg.segments_intersect_exact(rg.exp(seg[0]), rg.exp(seg[1]), rg.exp(oseg[0]), rg.exp(oseg[1]))
                if r is None:
                    continue
                if r[0] != "point" or r[1] in (0, 1) or r[2] in (0, 1):
                    return True
    return False


KNOWN_CLASSES = {"curve-touches-boundary-at-a-vertex": jordan_touches_at_vertex}


def subset_truth(RB, RA, curves):
    """(answer, number of witnesses); exact for polygons"""
    ws = rg.witness_points(curves)
    for w in ws:
        if RB.contains(w) and not RA.contains(w):
            return False, len(ws)
    return True, len(ws)


def _bounded(spec):
    return spec["k"] == "empty" or (spec["k"] != "whole" and lib.spec_moment(spec) > 0)


def judge(ctx, case):
    Sp = lib.sp()
    sa, sb = case["a"], case["b"]
    ka, kb = lib.spec_kind(sa), lib.spec_kind(sb)
    ca, cb = lib.spec_curves(sa), lib.spec_curves(sb)
    RA, RB = lib.spec_region(sa), lib.spec_region(sb)
    curved = any(len(s) > 2 for c in ca + cb for s in c)
    # ---- truth --------------------------------------------------------------
    if sb["k"] == "empty" or sa["k"] == "whole":
        truth, nw = True, 0
    elif sa["k"] == "empty" or sb["k"] == "whole":
        truth, nw = False, 0
    else:
        try:
            truth, nw = subset_truth(RB, RA, ca + cb)
        except rg.Degenerate:
            ctx.count("undecided-degenerate")
            return
        if nw == 0:
            ctx.count("undecided-no-witness")
            return
    strata = ["truth:%s" % truth, "relation:" + case["relation"], "pair:%s/%s" % (ka[:4] + ka[-1], kb[:4] + kb[-1])]
    singleton = sa["k"] in ("empty", "whole") or sb["k"] in ("empty", "whole")
    if singleton:
        strata.append("singleton-operand")
    both_unbounded = not singleton and not _bounded(sa) and not _bounded(sb)
    if both_unbounded:
        strata.append("unbounded-in-unbounded:%s" % truth)
    if case["relation"] == "inscribed":
        strata.append("all-vertices-on-boundary")
    if curved:
        strata.append("curved")
    if case.get("pre_a"):
        strata.append("operands-with-history")
    nontriv = not singleton and not (_bounded(sa) and not _bounded(sb))
    if nontriv and ca and cb:
        ba, bb = rg.curve_box([s for c in ca for s in c]), rg.curve_box([s for c in cb for s in c])
        nontriv = rg._boxes_overlap([float(x) for x in ba], [float(x) for x in bb])
    ctx.evaluated(case, nontriv, strata)
    where = ("curved" if curved else "polygon") + ":" + case["relation"]
    try:
        with call_limit(240):
            from .. import opcases as oc

            A, B = oc.build_operand(sa, case.get("pre_a")), oc.build_operand(sb, case.get("pre_b"))
            snapA, snapB = lib.structural_snapshot(A), lib.structural_snapshot(B)
            got = B in A
            got2 = A.contains_shape(B) if hasattr(A, "contains_shape") else got
            selfin = (A in A) if sa["k"] not in () else True
    except BaseException as exc:
        ctx.violation("subset", "raised", case, repr(exc), innermost_shapepy_frame(exc))
        return
    if got is not truth or got2 is not truth:
        ctx.violation("subset", "expected-%s" % truth, case,
                      "B in A -> %r (contains_shape %r), witnesses say %r; A %s, B %s" % (got, got2, truth, ka, kb), where)
    if selfin is not True:
        ctx.violation("subset", "A-not-in-A", case, "A in A -> %r (%s)" % (selfin, ka), where)
    # ---- consequences ---------------------------------------------------------
    if truth and got is True and not singleton and case.get("consequences"):
        try:
            with call_limit(300):
                A2, B2 = lib.build(sa), lib.build(sb)
                U = A2 | B2
                A3, B3 = lib.build(sa), lib.build(sb)
                I = A3 & B3
                ws = [rg.fl(w) for w in rg.witness_points(ca + cb, max_per_seg=2)]
                for w in ws[:40]:
                    if not (RA.clear(w, 1e-7) and RB.clear(w, 1e-7)):
                        continue
                    inU = (w in U) if lib.kind_of(U) not in ("empty", "whole") else lib.kind_of(U) == "whole"
                    inI = (w in I) if lib.kind_of(I) not in ("empty", "whole") else lib.kind_of(I) == "whole"
                    if inU != RA.contains(w):
                        ctx.violation("consequence", "A|B-is-not-A", case, "witness %r: in A|B %r, in A %r" % (w, inU, RA.contains(w)), where)
                        break
                    if inI != RB.contains(w):
                        ctx.violation("consequence", "A&B-is-not-B", case, "witness %r: in A&B %r, in B %r" % (w, inI, RB.contains(w)), where)
                        break
        except BaseException as exc:
            ctx.violation("consequence", "raised", case, repr(exc), innermost_shapepy_frame(exc))
    # ---- closed curves of B against A ------------------------------------------
    if sa["k"] in ("empty", "whole") or not cb:
        return
    polygonal = all(rg.curve_is_polygon(c) for c in ca + cb)
    for jc in cb[:2]:
        if not polygonal:
            # curved: only configurations without contact are decidable
            pass
        # cut J at the crossings with A's boundary; classify piece midpoints
        closed_ok, open_ok, decided = True, True, True
        for si, seg in enumerate(jc):
            try:
                # parameters where this segment of J meets the boundary of A
                ex_ = polygonal and all(rg.is_exact(v) for p in seg for v in p)
                tset = {F(0), F(1)} if ex_ else {0.0, 1.0}
                for c in ca:
                    for oseg in c:
                        try:
                            for cr in rg.seg_seg_crossings(seg, oseg):
                                tset.add(cr["t"])
                        except rg.Degenerate:
                            if len(seg) == 2 and len(oseg) == 2:
                                res = rg.segments_intersect_exact(rg.exp(seg[0]), rg.exp(seg[1]), rg.exp(oseg[0]), rg.exp(oseg[1]))
                                if res and res[0] == "overlap":
                                    tset.update(res[1])
                            else:
                                raise
                ts = sorted(tset, key=float)
            except rg.Degenerate:
                decided = False
                break
            if len(ts) > 2:
                open_ok = False  # J meets the boundary of A
            for t0, t1 in zip(ts[:-1], ts[1:]):
                if polygonal:
                    tm = (rg.ex(t0) + rg.ex(t1)) / 2
                    a, b = rg.exp(seg[0]), rg.exp(seg[1])
                    m = (a[0] + (b[0] - a[0]) * tm, a[1] + (b[1] - a[1]) * tm)
                    onb = any(rg.point_on_segment_exact(rg.exp(s[0]), rg.exp(s[1]), m) for c in ca for s in c)
                else:
                    m = rg.bez_eval([rg.fl(p) for p in seg], (float(t0) + float(t1)) / 2)
                    if not RA.clear(m, 1e-5):
                        onb = None
                    else:
                        onb = False
                if onb is None:
                    decided = False
                    break
                if onb:
                    open_ok = False
                else:
                    inside = RA.contains(m)
                    closed_ok = closed_ok and inside
                    open_ok = open_ok and inside
            # vertices of J on the boundary of A make the open answer False
            if polygonal:
                v = rg.exp(seg[0])
                if any(rg.point_on_segment_exact(rg.exp(s[0]), rg.exp(s[1]), v) for c in ca for s in c):
                    open_ok = False
            if not decided:
                break
        if not decided:
            ctx.count("undecided-jordan")
            continue
        sub = dict(case, jordan_of_b=cb.index(jc))
        ctx.evaluated(sub, True, ["jordan-in-shape", "jordan-closed:%s" % closed_ok, "jordan-open:%s" % open_ok])
        try:
            with call_limit(240):
                A = lib.build(sa)
                J = lib.jordan_from_curve(jc)
                g_closed = A.contains_jordan(J, True)
                g_open = A.contains_jordan(J, False)
                g_in = J in A
        except BaseException as exc:
            ctx.violation("jordan", "raised", sub, repr(exc), innermost_shapepy_frame(exc))
            continue
        if g_closed is not closed_ok or g_in is not closed_ok:
            ctx.violation("jordan", "closed-expected-%s" % closed_ok, sub,
                          "contains_jordan(J, True) -> %r, J in A -> %r, model %r (A %s)" % (g_closed, g_in, closed_ok, ka), where)
        if g_open is not open_ok and ctx.known_class(sub, KNOWN_CLASSES):
            pass  # open finding: contact at a vertex decides the open answer
        elif g_open is not open_ok:
            ctx.violation("jordan", "open-expected-%s" % open_ok, sub,
                          "contains_jordan(J, False) -> %r, model %r (A %s)" % (g_open, open_ok, ka), where)


# ------------------------------------------------------------------ strategies
def _scale_about(spec, c, f):
    return lib.spec_map(spec, lambda p: (c[0] + (p[0] - c[0]) * f, c[1] + (p[1] - c[1]) * f))


@st.composite
def pair_cases(draw, curved=False):
    if curved:
        nk, deg = draw(st.sampled_from([("float", (1, 2)), ("float", (2,)), ("float", (1, 2, 3)), ("float", (3,))]))
    else:
        nk, deg = draw(st.sampled_from(S.NUMKINDS)), (1,)
    R = S.base_radius(nk)
    relation = draw(st.sampled_from(["scaled", "scaled", "independent", "independent", "subcollection", "notch", "inscribed", "singleton"]
                                    if not curved else ["scaled", "independent", "independent", "subcollection"]))
    kinds = S.KINDS[2:]
    cons = draw(st.integers(0, 3)) == 0
    if relation == "singleton":
        a = draw(S.shape_spec(nk, deg, kinds=S.KINDS))
        b = draw(S.shape_spec(nk, deg, kinds=S.KINDS if a["k"] in ("empty", "whole") else ["empty", "whole"]))
        if draw(st.booleans()):
            a, b = b, a
        return {"a": a, "b": b, "relation": relation}
    if relation == "notch":
        # complement of an L (or the L) against (the complement of) a square in its notch / in its body
        i = st.integers(1, 6)
        w, h, nw, nh = draw(i) + 2, draw(i) + 2, draw(i), draw(i)
        nw, nh = min(nw, w - 1), min(nh, h - 1)
        L = [(0, 0), (w, 0), (w, h - nh), (w - nw, h - nh), (w - nw, h), (0, h)]
        # square strictly inside the notch or inside the body
        if draw(st.booleans()):
            x0, y0 = F(w) - F(nw) * F(3, 4), F(h) - F(nh) * F(3, 4)
            sq = [(x0, y0), (x0 + F(nw, 2), y0), (x0 + F(nw, 2), y0 + F(nh, 2)), (x0, y0 + F(nh, 2))]
        else:
            sq = [(F(1, 4), F(1, 4)), (F(3, 4), F(1, 4)), (F(3, 4), F(3, 4)), (F(1, 4), F(3, 4))]
        inv_l, inv_s = draw(st.booleans()), draw(st.booleans())
        cl = rg.polygon_curve(L if not inv_l else list(reversed(L)))
        cs = rg.polygon_curve(sq if not inv_s else list(reversed(sq)))
        a, b = {"k": "simple", "curve": cl}, {"k": "simple", "curve": cs}
        if draw(st.booleans()):
            a, b = b, a
        return {"a": a, "b": b, "relation": relation, "consequences": cons}
    if relation == "inscribed":
        # B's vertices are points of A's edges (rational parameters)
        # exact contact needs exact data: rational only (a float "point on an
        # edge" is off the edge by rounding and the truth would be undecidable)
        nk = nk if nk in ("int", "frac") else "int"
        R = S.base_radius(nk)
        a_curve = draw(S.simple_curve(nk, (1,), (0.0, 0.0), 0.45 * R, R, False, templates=True))
        verts = rg.curve_vertices(a_curve)
        n = len(verts)
        pts = []
        for k in range(n):
            if draw(st.integers(0, 3)) == 0 and n - k + len(pts) > 3:
                continue
            t = F(draw(st.integers(0, 4)), 4)
            v, w = rg.exp(verts[k]), rg.exp(verts[(k + 1) % n])
            p = (v[0] + (w[0] - v[0]) * t, v[1] + (w[1] - v[1]) * t)
            if not pts or p != pts[-1]:
                pts.append(p)
        if len(pts) > 1 and pts[0] == pts[-1]:
            pts.pop()
        from hypothesis import assume

        assume(len(pts) >= 3 and rg.polygon_is_simple(pts) and rg.curve_area(rg.polygon_curve(pts)) != 0)
        if rg.curve_area(rg.polygon_curve(pts)) < 0:
            pts.reverse()
        return {"a": {"k": "simple", "curve": a_curve}, "b": {"k": "simple", "curve": rg.polygon_curve(pts)},
                "relation": relation, "consequences": False}
    a = draw(S.shape_spec(nk, deg, kinds=kinds))
    if relation == "scaled":
        f = draw(st.sampled_from([F(1, 2), F(3, 4), F(1), F(5, 4), F(2)]))
        if nk == "float" or curved:
            f = float(f)
        b = _scale_about(a, (0, 0), f)
        if draw(st.integers(0, 3)) == 0:
            a, b = b, a
    elif relation == "independent":
        off = (draw(st.floats(-1.0, 1.0)) * R, draw(st.floats(-1.0, 1.0)) * R)
        if nk in ("int", "mixed"):
            off = (float(round(off[0])), float(round(off[1])))
        b = draw(S.shape_spec(nk, deg, center=off, R=R * draw(st.sampled_from([0.3, 0.6, 1.0, 1.6])), kinds=kinds))
    else:
        # sub-collections: drop / keep components or holes of A
        if a["k"] == "disjoint":
            parts = a["parts"]
            keep = draw(st.integers(0, len(parts) - 1))
            b = dict(parts[keep]) if draw(st.booleans()) or len(parts) < 3 else {"k": "disjoint", "parts": parts[:keep] + parts[keep + 1:]}
        elif a["k"] == "connected":
            cs = a["curves"]
            if len(cs) > 2 and draw(st.booleans()):
                b = {"k": "connected", "curves": cs[:-1]}
            else:
                b = {"k": "simple", "curve": cs[draw(st.integers(0, len(cs) - 1))]}
        else:
            b = {"k": "simple", "curve": a["curve"]}
        if draw(st.booleans()):
            a, b = b, a
    out = {"a": a, "b": b, "relation": relation, "consequences": cons}
    if nk in ("int", "frac") and not curved and draw(st.integers(0, 2)) == 0:
        # operands with a history: built elsewhere, queried, moved into place
        out["pre_a"] = {"v": [draw(st.integers(-90, 90)), draw(st.integers(-90, 90))], "s": draw(st.sampled_from([1, 1, 2]))}
        out["pre_b"] = {"v": [draw(st.integers(-90, 90)), draw(st.integers(-90, 90))], "s": draw(st.sampled_from([1, 1, F(1, 2)]))}
    return out


def parts(tier):
    q = tier == "quick"
    return [
        Part("polygons", judge, pair_cases(False), n=2400 if q else 60000, budget_s=90 if q else 1800),
        Part("curved", judge, pair_cases(True), n=100 if q else 2000, budget_s=60 if q else 2400),
    ]
