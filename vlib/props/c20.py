"""C20 -- Plotting draws exactly the boundary of the shape"""
from __future__ import annotations

from hypothesis import strategies as st

from .. import lib
from .. import refgeom as rg
from .. import strategies as S
from ..engine import Part, call_limit, innermost_shapepy_frame

PROPERTY = "C20"
RULE = (
    "Hypothesis draws shapes of every kind with segments of degree 1..3 (true cubics), rational and float; each is "
    "plotted with a fresh ShapePloter on a matplotlib Figure (Agg, no pyplot state). Oracle from ax.patches: one "
    "filled PathPatch per connected component whose path has one MOVETO..CLOSEPOLY sub-path per boundary, one "
    "outline patch per boundary; every sub-path is parsed into pieces (LINETO = degree 1, CURVE3 x2 = 2, CURVE4 x3 "
    "= 3); there are as many pieces as segments and piece i evaluated as a Bezier equals segment i at 5 parameters "
    "within 2e-6 (outlines are rounded to 1e-6 by design); the chain closes on the MOVETO vertex (the vertex stored "
    "with CLOSEPOLY is ignored by matplotlib and not inspected); bounded components have a coloured translucent "
    "fill, unbounded ones a white patch on a coloured axes background; Empty adds nothing, Whole only colours the "
    "background; the control points of the shape are unchanged. Non-trivial: a curved segment or >= 2 boundaries."
)
MANDATORY = ["cubic", "quadratic", "kind:simple", "kind:connected", "kind:disjoint", "unbounded", "kind:empty", "kind:whole"]


def parse_path(path):
    """list of sub-paths; each = (start, [pieces as control-point lists], closed_ok)"""
    from matplotlib.path import Path

    verts = [tuple(map(float, v)) for v in path.vertices]
    codes = list(path.codes) if path.codes is not None else None
    if codes is None:
        return None
    subs = []
    i = 0
    n = len(codes)
    cur = None
    while i < n:
        c = codes[i]
        if c == Path.MOVETO:
            cur = {"start": verts[i], "pieces": [], "closed": False, "pos": verts[i]}
            subs.append(cur)
            i += 1
        elif cur is None:
            return None
        elif c == Path.LINETO:
            cur["pieces"].append([cur["pos"], verts[i]])
            cur["pos"] = verts[i]
            i += 1
        elif c == Path.CURVE3:
            if i + 1 >= n or codes[i + 1] != Path.CURVE3:
                return None
            cur["pieces"].append([cur["pos"], verts[i], verts[i + 1]])
            cur["pos"] = verts[i + 1]
            i += 2
        elif c == Path.CURVE4:
            if i + 2 >= n or codes[i + 1] != Path.CURVE4 or codes[i + 2] != Path.CURVE4:
                return None
            cur["pieces"].append([cur["pos"], verts[i], verts[i + 1], verts[i + 2]])
            cur["pos"] = verts[i + 2]
            i += 3
        elif c == Path.CLOSEPOLY:
            cur["closed"] = True
            i += 1
        else:
            return None
    return subs


def match_subpath(sub, curve, tol):
    """None if the sub-path retraces the curve piece by piece, else a message"""
    if not sub["closed"]:
        return "sub-path is not closed with CLOSEPOLY"
    if len(sub["pieces"]) != len(curve):
        return "%d pieces for %d segments" % (len(sub["pieces"]), len(curve))
    for i, (piece, seg) in enumerate(zip(sub["pieces"], curve)):
        sf = [rg.fl(p) for p in seg]
        if len(piece) != len(sf):
            return "piece %d has degree %d, segment has degree %d" % (i, len(piece) - 1, len(sf) - 1)
        for t in (0.0, 0.25, 0.5, 0.75, 1.0):
            a, b = rg.bez_eval(piece, t), rg.bez_eval(sf, t)
            if rg.dist(a, b) > tol:
                return "piece %d at t=%g: drawn %r, segment %r" % (i, t, a, b)
    if rg.dist(sub["pos"], sub["start"]) > tol:
        return "chain does not close: ends at %r, started at %r" % (sub["pos"], sub["start"])
    return None


def judge(ctx, case):
    import matplotlib

    matplotlib.use("Agg", force=True)
    from matplotlib.colors import to_rgba
    from matplotlib.figure import Figure

    Sp = lib.sp()
    spec = case["spec"]
    curves = lib.spec_curves(spec)
    degs = {len(s) - 1 for c in curves for s in c}
    strata = ["kind:" + spec["k"]]
    if 3 in degs:
        strata.append("cubic")
    if 2 in degs:
        strata.append("quadratic")
    unbounded = spec["k"] not in ("empty", "whole") and lib.spec_moment(spec) < 0
    if unbounded:
        strata.append("unbounded")
    ctx.evaluated(case, len(curves) >= 2 or (degs and max(degs) > 1), strata)
    where = spec["k"]
    try:
        with call_limit(120):
            shape = lib.build(spec)
            snap = lib.structural_snapshot(shape)
            fig = Figure()
            ax = fig.add_subplot()
            bg0 = to_rgba(ax.get_facecolor())
            plt = Sp.ShapePloter(fig=fig, ax=ax)
            plt.plot(shape)
            patches = list(ax.patches)
            bg1 = to_rgba(ax.get_facecolor())
            if lib.structural_snapshot(shape) != snap:
                ctx.violation("plot", "shape-modified", case, "control points changed by plotting", where)
    except BaseException as exc:
        ctx.violation("plot", "raised", case, repr(exc), innermost_shapepy_frame(exc))
        return
    if spec["k"] == "empty":
        if patches or bg1 != bg0:
            ctx.violation("plot", "empty-draws-something", case, "%d patches" % len(patches), where)
        return
    if spec["k"] == "whole":
        if patches:
            ctx.violation("plot", "whole-adds-patches", case, "%d patches" % len(patches), where)
        if bg1 == bg0:
            ctx.violation("plot", "whole-does-not-colour-background", case, repr(bg1), where)
        return
    # components as the model sees them (each with its boundary curves)
    if spec["k"] == "disjoint":
        comps = [lib.spec_curves(p) for p in spec["parts"]]
    else:
        comps = [curves]
    fills = [p for p in patches if to_rgba(p.get_facecolor())[3] > 0]
    outlines = [p for p in patches if to_rgba(p.get_facecolor())[3] == 0]
    if len(fills) != len(comps):
        ctx.violation("plot", "fill-patch-count", case, "%d filled patches for %d components" % (len(fills), len(comps)), where)
        return
    if len(outlines) != len(curves):
        ctx.violation("plot", "outline-patch-count", case, "%d outlines for %d boundary curves" % (len(outlines), len(curves)), where)
        return
    size = max(1.0, max(abs(float(v)) for c in curves for s in c for p in s for v in p))
    tol = 2e-6 + 1e-12 * size

    def find_curve(sub, candidates):
        for i, c in enumerate(candidates):
            # the library may start the boundary at the same vertex: compare directly
            if match_subpath(sub, c, tol) is None:
                return i
        return None

    left_comps = list(range(len(comps)))
    for fp in fills:
        subs = parse_path(fp.get_path())
        if subs is None:
            ctx.violation("plot", "unparsable-path", case, "codes %r" % (list(fp.get_path().codes)[:12],), where)
            return
        # which component is it?  the one whose curves all match
        hit = None
        for ci in left_comps:
            comp = comps[ci]
            if len(subs) != len(comp):
                continue
            rest = list(comp)
            ok = True
            for sub in subs:
                k = find_curve(sub, rest)
                if k is None:
                    ok = False
                    break
                rest.pop(k)
            if ok:
                hit = ci
                break
        if hit is None:
            # explain with the first sub-path against the closest curve
            msgs = [match_subpath(subs[0], c, tol) for comp in comps for c in comp] if subs else ["no sub-path"]
            ctx.violation("plot", "filled-path-does-not-retrace-boundary", case,
                          "%d sub-paths; first sub-path vs curves: %s" % (len(subs), "; ".join(str(m) for m in msgs[:3])), where)
            return
        left_comps.remove(hit)
        comp_area = float(sum(rg.curve_area(c) for c in comps[hit]))
        face = to_rgba(fp.get_facecolor())
        if comp_area > 0:
            if face[:3] == (1.0, 1.0, 1.0) or not (0 < face[3] <= 1):
                ctx.violation("plot", "bounded-component-not-filled", case, "face colour %r" % (face,), where)
        else:
            if face[:3] != (1.0, 1.0, 1.0) or bg1[:3] == (1.0, 1.0, 1.0):
                ctx.violation("plot", "unbounded-component-not-a-hole-in-background", case, "patch %r background %r" % (face, bg1), where)
    rest = list(curves)
    for op in outlines:
        subs = parse_path(op.get_path())
        if subs is None or len(subs) != 1:
            ctx.violation("plot", "outline-not-one-subpath", case, repr(subs)[:200], where)
            return
        k = find_curve(subs[0], rest)
        if k is None:
            msgs = [match_subpath(subs[0], c, tol) for c in rest]
            ctx.violation("plot", "outline-does-not-retrace-boundary", case, "; ".join(str(m) for m in msgs[:3]), where)
            return
        rest.pop(k)


@st.composite
def cases(draw):
    nk, deg = draw(st.sampled_from([("int", (1,)), ("frac", (1,)), ("float", (1,)), ("float", (1, 2)), ("float", (2,)), ("float", (1, 2, 3)),
                                    ("float", (3,)), ("frac", (1, 2, 3)), ("float", (2, 3)), ("int", (1, 3))]))
    far = draw(st.sampled_from([(0.0, 0.0), (0.0, 0.0), (12345.0, -2345.0), (-20480.0, 10240.0), (500.0, 7000.0)]))
    return {"spec": draw(S.shape_spec(nk, deg, center=far, templates=(far == (0.0, 0.0))))}


def parts(tier):
    q = tier == "quick"
    return [Part("plot", judge, cases(), n=4000 if q else 60000, budget_s=80 if q else 2400)]
