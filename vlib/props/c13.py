"""C13 -- Rational input gives exact rational output"""
from __future__ import annotations

import json
import os
import shutil
import subprocess
from fractions import Fraction as F

from hypothesis import strategies as st

from .. import lib
from .. import refgeom as rg
from .. import strategies as S
from ..engine import Part, call_limit, innermost_shapepy_frame, enc

PROPERTY = "C13"
RULE = (
    "Part 'point': Hypothesis draws int/Fraction coordinates with denominators from 1 to 1e12 (many straddling "
    "1e9); the stored coordinate must equal the input when its denominator is <= 1e9 and "
    "input.limit_denominator(10**9) otherwise, be an int or a Fraction with int numerator/denominator, and stay "
    "usable in arithmetic and membership queries; the same inputs are also evaluated under Python 3.11 "
    "(polygon.py loaded by path with python3-vt) and must be stored identically. Part 'operators': pairs of "
    "rational polygons in general position (no vertex of one on the other, checked exactly) with denominators "
    "chosen so that exact crossing denominators straddle 1e9; every vertex of A|B, A&B, A-B, A^B must be an "
    "input vertex or an exact crossing point (exactly when its denominator is <= 1e9, within 1e-12 when the cap "
    "rounds it), of rational type, and "
    "intersection() parameters must be the exact rationals. Part 'transform': move/scale by rationals and split at "
    "rational parameters give the exact rational coordinates. Part 'primitives': Primitive.square / triangle / "
    "regular_polygon(4) with int/Fraction side and centre have exactly the documented rational vertices, area and "
    "moments, of rational type. Non-trivial: some derived coordinate has "
    "denominator > 1000."
)
MANDATORY = ["primitive:int-side", "denominator>1e9", "denominator<=1e9", "operators", "crossing-den>1e9", "move", "scale", "split", "py311"]
CAP = 10**9


def _wellformed(x):
    if isinstance(x, bool):
        return False
    if isinstance(x, int):
        return True
    return isinstance(x, F) and type(x.numerator) is int and type(x.denominator) is int


def _expect_stored(x):
    x = F(x)
    return x if x.denominator <= CAP else x.limit_denominator(CAP)


# ------------------------------------------------------------------ points
def judge_point(ctx, case):
    Sp = lib.sp()
    x, y = case["x"], case["y"]
    big = max(F(x).denominator, F(y).denominator) > CAP
    nontriv = max(F(x).denominator, F(y).denominator) > 1000
    ctx.evaluated(case, nontriv, ["denominator>1e9" if big else "denominator<=1e9"])
    try:
        with call_limit(30):
            p = Sp.Point2D(x, y)
            sx, sy = p[0], p[1]
            if not (_wellformed(sx) and _wellformed(sy)):
                ctx.violation("point", "malformed-stored-coordinate", case,
                              "stored %r (%s: %s/%s)" % ((sx, sy), type(sx).__name__,
                                                         type(getattr(sx, "numerator", 0)).__name__,
                                                         type(getattr(sx, "denominator", 0)).__name__))
                return
            if sx != _expect_stored(x) or sy != _expect_stored(y):
                ctx.violation("point", "stored-value", case, "stored %r expected %r" % ((sx, sy), (_expect_stored(x), _expect_stored(y))))
                return
            # still usable
            q = p + Sp.Point2D(1, F(1, 3))
            if not (_wellformed(q[0]) and _wellformed(q[1])) or q[0] != sx + 1 or q[1] != sy + F(1, 3):
                ctx.violation("point", "arithmetic", case, "p + (1,1/3) = %r" % ((q[0], q[1]),))
                return
            r = p * F(3, 7)
            # an in-place product is not re-capped: exact or capped are both fine
            if r[0] not in (sx * F(3, 7), _expect_stored(sx * F(3, 7))) or not _wellformed(r[0]):
                ctx.violation("point", "arithmetic", case, "p * 3/7 = %r" % ((r[0], r[1]),))
                return
            big_sq = Sp.Primitive.square(10**7)
            inside = (abs(F(sx)) < 5 * 10**6 and abs(F(sy)) < 5 * 10**6)
            on = (abs(F(sx)) == 5 * 10**6 and abs(F(sy)) <= 5 * 10**6) or (abs(F(sy)) == 5 * 10**6 and abs(F(sx)) <= 5 * 10**6)
            got = p in big_sq
            if got != (inside or on):
                ctx.violation("point", "membership-after-storage", case, "%r in square(1e7) = %r" % ((sx, sy), got))
    except BaseException as exc:
        ctx.violation("point", "raised", case, repr(exc), innermost_shapepy_frame(exc))


_PY311 = r'''
import sys, json, importlib.util, fractions
spec = importlib.util.spec_from_file_location("polygon_under_test", sys.argv[1])
mod = importlib.util.module_from_spec(spec); spec.loader.exec_module(mod)
out = []
for (x, y) in json.load(sys.stdin):
    x = fractions.Fraction(x); y = fractions.Fraction(y)
    try:
        p = mod.Point2D(x, y)
        vals = []
        for v in (p[0], p[1]):
            ok = isinstance(v, int) or (isinstance(v, fractions.Fraction) and type(v.numerator) is int and type(v.denominator) is int)
            vals.append([str(v), type(v).__name__, ok])
        q = p + mod.Point2D(1, 1)
        out.append({"ok": True, "vals": vals, "sum": [str(q[0]), str(q[1])]})
    except BaseException as exc:
        out.append({"ok": False, "exc": repr(exc)})
json.dump({"version": sys.version.split()[0], "out": out}, sys.stdout)
'''


def judge_py311(ctx, case):
    """batch of points evaluated by another interpreter version"""
    exe = shutil.which("python3-vt") or "/opt/veriftools/pyvenv/bin/python"
    if not os.path.exists(exe):
        ctx.count("py311-interpreter-missing")
        return
    src = os.path.join(os.environ.get("SHAPEPY_SRC", "/repo/src"), "shapepy", "polygon.py")
    pts = case["points"]
    payload = json.dumps([[str(F(x)), str(F(y))] for x, y in pts])
    env = {k: v for k, v in os.environ.items() if not k.startswith("PYTHON")}
    try:
        res = subprocess.run([exe, "-c", _PY311, src], input=payload, capture_output=True, text=True, timeout=120, env=env)
        data = json.loads(res.stdout)
    except Exception as exc:
        ctx.count("py311-run-failed")
        return
    for (x, y), r in zip(pts, data["out"]):
        sub = {"points": [[x, y]]}
        big = max(F(x).denominator, F(y).denominator) > CAP
        ctx.evaluated(sub, True, ["py311", "py311-big" if big else "py311-small"])
        if not r["ok"]:
            ctx.violation("py311", "raised", sub, "python %s: %s" % (data["version"], r["exc"]))
            continue
        want = [_expect_stored(x), _expect_stored(y)]
        for v, w in zip(r["vals"], want):
            if not v[2] or F(v[0]) != w:
                ctx.violation("py311", "stored-value", sub, "python %s stored %r expected %r" % (data["version"], v, str(w)))
                break


# --------------------------------------------------------------- operators
def _general_position(ca, cb):
    """no vertex of one polygon on the other's boundary, no overlap (exact).
    Returns the exact crossing points, each with a flag telling whether an
    intermediate product of the library's subdivision formula
    (1-u)*P0 + u*P1 exceeds the 1e9 denominator cap (class of the open
    finding KF-C13-intermediate-cap)."""
    ea = [(rg.exp(s[0]), rg.exp(s[1])) for s in ca]
    eb = [(rg.exp(s[0]), rg.exp(s[1])) for s in cb]
    crossings = []
    for (a, b) in ea:
        for (c, d) in eb:
            r = rg.segments_intersect_exact(a, b, c, d)
            if r is None:
                continue
            if r[0] != "point" or r[1] in (0, 1) or r[2] in (0, 1):
                return None
            da = max(x.denominator for q in (a, b) for x in q)
            db = max(x.denominator for q in (c, d) for x in q)
            inter = max(F(r[1]).denominator * da, F(r[2]).denominator * db) > CAP
            crossings.append((r[3], inter))
    return crossings


def intermediate_cap(case) -> bool:
    """some crossing is computed through a product above the cap"""
    cr = _general_position(lib.tup(case["a"]), lib.tup(case["b"]))
    return bool(cr) and any(flag and max(p[0].denominator, p[1].denominator) <= CAP for p, flag in cr)


KNOWN_CLASSES = {"crossing-through-capped-intermediate": intermediate_cap}


def judge_operators(ctx, case):
    Sp = lib.sp()
    ca, cb = lib.tup(case["a"]), lib.tup(case["b"])
    crossings = _general_position(ca, cb)
    if crossings is None:
        ctx.count("contact-configuration-skipped")
        return
    if not crossings:
        ctx.count("no-crossing")
    allowed = {}
    for c in ca + cb:
        allowed[(F(c[0][0]), F(c[0][1]))] = "input"
    maxden = 1
    rounded = []  # exact crossings that do not fit under the 1e9 cap
    known = ctx.known_class(case, KNOWN_CLASSES)
    for p, inter in crossings:
        maxden = max(maxden, p[0].denominator, p[1].denominator)
        if max(p[0].denominator, p[1].denominator) <= CAP and not (inter and known):
            allowed[(p[0], p[1])] = "crossing"
        else:
            rounded.append(p)
    strata = ["operators"]
    if maxden > CAP:
        strata.append("crossing-den>1e9")
    ctx.evaluated(case, maxden > 1000, strata)
    for op in case["ops"]:
        sub = dict(a=case["a"], b=case["b"], ops=[op])
        try:
            with call_limit(120):
                A = lib.simple_from_curve(ca)
                B = lib.simple_from_curve(cb)
                if op == "|":
                    R = A | B
                elif op == "&":
                    R = A & B
                elif op == "-":
                    R = A - B
                else:
                    R = A ^ B
                curves = lib.read_curves(R)
                # operands may have been split in place: their vertices too
                curves += lib.read_curves(A) + lib.read_curves(B)
                # values remain usable
                if curves:
                    v = curves[0][0][0]
                    _ = (v[0], v[1]) in A
                    _ = float(R) if lib.kind_of(R) not in ("empty", "whole") else 0
        except (TypeError, OverflowError) as exc:
            ctx.violation("operators", "raised-type-error", sub, repr(exc), innermost_shapepy_frame(exc))
            continue
        except BaseException as exc:
            ctx.count("operator-raised-other:" + type(exc).__name__)
            continue
        for c in curves:
            for seg in c:
                for p in seg:
                    if not (_wellformed(p[0]) and _wellformed(p[1])):
                        ctx.violation("operators", "vertex-not-rational", sub, "op %s vertex %r" % (op, p))
                        break
                    if (F(p[0]), F(p[1])) not in allowed and not any(
                            abs(F(p[0]) - r[0]) <= F(1, 10**12) and abs(F(p[1]) - r[1]) <= F(1, 10**12) for r in rounded):
                        ctx.violation("operators", "vertex-not-exact", sub,
                                      "op %s vertex %r is neither an input vertex nor an exact crossing (%d crossings)" % (op, p, len(crossings)))
                        break
    # intersection parameters
    try:
        with call_limit(120):
            JA = lib.jordan_from_curve(ca)
            JB = lib.jordan_from_curve(cb)
            inter = JA.intersection(JB, equal_beziers=False, end_points=False)
    except (TypeError, OverflowError) as exc:
        ctx.violation("operators", "intersection-raised-type-error", case, repr(exc), innermost_shapepy_frame(exc))
        return
    except BaseException:
        ctx.count("intersection-raised-other")
        return
    want = set()
    for i, sa in enumerate(ca):
        for j, sb in enumerate(cb):
            r = rg.segments_intersect_exact(rg.exp(sa[0]), rg.exp(sa[1]), rg.exp(sb[0]), rg.exp(sb[1]))
            if r is not None:
                want.add((i, j, r[1], r[2]))
    got = set()
    for (a, b, u, v) in inter:
        if not (_wellformed(u) and _wellformed(v)):
            ctx.violation("operators", "parameter-not-rational", case, "%r" % ((a, b, u, v),))
            return
        got.add((a, b, F(u), F(v)))
    if got != want:
        ctx.violation("operators", "parameters-not-exact", case, "got %r want %r" % (sorted(got)[:4], sorted(want)[:4]))


# --------------------------------------------------------------- transforms
def judge_transform(ctx, case):
    Sp = lib.sp()
    spec = case["spec"]
    curves = lib.spec_curves(spec)
    kind = case["kind"]
    ctx.evaluated(case, True, [kind])
    try:
        with call_limit(120):
            shape = lib.build(spec)
            if kind == "move":
                vx, vy = case["args"]
                ret = shape.move(vx, vy) if case.get("form", 0) == 0 else shape.move((vx, vy))
                fn = lambda p: (F(p[0]) + vx, F(p[1]) + vy)
            elif kind == "scale":
                sx, sy = case["args"]
                ret = shape.scale(sx, sy)
                fn = lambda p: (F(p[0]) * sx, F(p[1]) * sy)
            else:
                j = shape.jordans[0]
                idx, t = case["args"]
                idx = idx % len(j.segments)
                ref = lib.read_jordan(j)
                want_pt = rg.bez_eval([rg.exp(q) for q in ref[idx]], F(t))
                j.split([idx], [t])
                got = lib.read_jordan(j)
                verts = {(F(p[0]), F(p[1])) for seg in got for p in seg if _wellformed(p[0]) and _wellformed(p[1])}
                bad = [p for seg in got for p in seg if not (_wellformed(p[0]) and _wellformed(p[1]))]
                if bad:
                    ctx.violation("transform", "split-vertex-not-rational", case, repr(bad[:2]))
                elif (_expect_stored(want_pt[0]), _expect_stored(want_pt[1])) not in verts:
                    ctx.violation("transform", "split-junction-not-exact", case, "expected junction %r" % (want_pt,))
                elif len(got) != len(ref) + 1:
                    ctx.violation("transform", "split-piece-count", case, "%d -> %d" % (len(ref), len(got)))
                return
            if ret is not shape:
                ctx.violation("transform", "does-not-return-self", case, repr(ret))
            want = sorted((_expect_stored(fn(p)[0]), _expect_stored(fn(p)[1])) for c in curves for seg in c for p in seg[:1])
            gotc = lib.read_curves(shape)
            bad = [p for c in gotc for seg in c for p in seg if not (_wellformed(p[0]) and _wellformed(p[1]))]
            if bad:
                ctx.violation("transform", kind + "-vertex-not-rational", case, repr(bad[:2]))
                return
            got = sorted((F(seg[0][0]), F(seg[0][1])) for c in gotc for seg in c)
            if got != want:
                ctx.violation("transform", kind + "-not-exact", case, "got %r want %r" % (got[:3], want[:3]))
    except BaseException as exc:
        ctx.violation("transform", "raised", case, repr(exc), innermost_shapepy_frame(exc))


# --------------------------------------------------------------- strategies
def _dens():
    return st.one_of(
        st.sampled_from([1, 2, 3, 7, 1000, 10**6, 10**9 - 1, 10**9, 10**9 + 1, 10**9 + 7, 2 * 10**9 + 11, 10**12 + 39]),
        st.integers(1, 10**12),
    )


def _coord():
    return st.one_of(
        st.integers(-10**7, 10**7),
        st.builds(lambda n, d: F(n, d), st.integers(-10**13, 10**13), _dens()),
    )


BIGDENS = [30011, 31013, 9973, 46337, 1000]


@st.composite
def _snap_big(draw):
    den = draw(st.sampled_from(BIGDENS))
    return (lambda p: (F(int(round(p[0] * den)), den), F(int(round(p[1] * den)), den))), "frac", den


@st.composite
def operator_cases(draw):
    nk = draw(st.sampled_from(["int", "frac", "fracbig", "fracbig"]))
    if nk == "fracbig":
        sa, sb = draw(_snap_big()), draw(_snap_big())
        R = 10.0
        a = draw(S.star_curve("frac", (0.0, 0.0), 0.45 * R, R, (3, 6), (1,), False, sa))
        off = (draw(st.floats(-1.2, 1.2)) * R, draw(st.floats(-1.2, 1.2)) * R)
        b = draw(S.star_curve("frac", off, 0.4 * R, R, (3, 6), (1,), draw(st.booleans()), sb))
    else:
        R = S.base_radius(nk)
        a = draw(S.star_curve(nk, (0.0, 0.0), 0.45 * R, R, (3, 6), (1,), False))
        off = (round(draw(st.floats(-1.2, 1.2)) * R), round(draw(st.floats(-1.2, 1.2)) * R))
        b = draw(S.star_curve(nk, (float(off[0]), float(off[1])), 0.4 * R, R, (3, 6), (1,), draw(st.booleans())))
    ops = draw(st.lists(st.sampled_from(["|", "&", "-", "^"]), min_size=1, max_size=2, unique=True))
    if nk in ("int", "frac") and draw(st.integers(0, 3)) == 0:
        # the same exact drawing in millimetres (edges ~1e-3): nothing but the
        # size changes, every crossing parameter is the same rational
        f = F(1, 400 * int(R))
        a = rg.curve_map(lib.tup(a), lambda p: (p[0] * f, p[1] * f))
        b = rg.curve_map(lib.tup(b), lambda p: (p[0] * f, p[1] * f))
    return {"a": a, "b": b, "ops": ops}


@st.composite
def transform_cases(draw):
    nk = draw(st.sampled_from(["int", "frac"]))
    spec = draw(S.shape_spec(nk, (1,), kinds=S.KINDS[2:], templates=True))
    kind = draw(st.sampled_from(["move", "scale", "split"]))
    if kind == "move":
        args = [draw(S.rational_numbers(100)), draw(S.rational_numbers(100))]
    elif kind == "scale":
        pos = st.one_of(st.integers(1, 20), st.builds(lambda n, d: F(n, d), st.integers(1, 200), st.sampled_from(S.DENS)))
        args = [draw(pos), draw(pos)]
    else:
        args = [draw(st.integers(0, 20)), draw(st.builds(lambda n, d: F(n, d), st.integers(1, 30), st.just(31)))]
    return {"spec": spec, "kind": kind, "args": args, "form": draw(st.integers(0, 1))}


@st.composite
def moment_cases(draw):
    nk = draw(st.sampled_from(["int", "frac", "frac"]))
    R = S.base_radius(nk)
    c = (round(draw(st.floats(-2, 2)) * R), round(draw(st.floats(-2, 2)) * R))
    spec = draw(S.shape_spec(nk, (1,), center=(float(c[0]), float(c[1])), kinds=S.KINDS[2:], templates=True))
    exps = []
    for _ in range(3):
        sm = draw(st.integers(0, 6))
        a = draw(st.integers(0, sm))
        exps.append([a, sm - a])
    return {"nk": nk, "deg": [1], "spec": spec, "exps": exps}


def judge_moments(ctx, case):
    """areas and moments of rational polygons are exact rationals (the oracle
    of C04, restricted to int/Fraction polygons, counted for this property)"""
    from . import c04

    c04.judge(ctx, case)


# ------------------------------------------------------------------ primitives
def judge_primitive(ctx, case):
    """the factories whose documented vertices are rational expressions of
    rational parameters (square, triangle, the 4-gon) are rational input like
    any other: vertices, area and first moments are the exact rationals"""
    Sp = lib.sp()
    kind, side, c = case["kind"], case["side"], case["center"]
    cx, cy = F(c[0]), F(c[1])
    sd = F(side)
    if kind == "square":
        h = sd / 2
        want = [(cx + h, cy + h), (cx - h, cy + h), (cx - h, cy - h), (cx + h, cy - h)]
        make = lambda: Sp.Primitive.square(side, tuple(c)) if not case.get("default_center") else Sp.Primitive.square(side)
    elif kind == "triangle":
        want = [(cx, cy), (cx + sd, cy), (cx, cy + sd)]
        make = lambda: Sp.Primitive.triangle(side, tuple(c)) if not case.get("default_center") else Sp.Primitive.triangle(side)
    else:
        want = [(cx + sd, cy), (cx, cy + sd), (cx - sd, cy), (cx, cy - sd)]
        make = lambda: Sp.Primitive.regular_polygon(4, side, tuple(c)) if not case.get("default_center") else Sp.Primitive.regular_polygon(4, side)
    if case.get("default_center"):
        dx, dy = -cx, -cy
        want = [(x + dx, y + dy) for x, y in want]
    big = any(_expect_stored(v) != v for pt in want for v in pt)
    ctx.evaluated(case, isinstance(side, F) or any(isinstance(v, F) for v in c), ["primitive", "primitive:" + kind] + (["primitive:int-side"] if isinstance(side, int) else []))
    if big:
        return
    try:
        with call_limit(60):
            shape = make()
            verts = [(v[0], v[1]) for v in shape.jordans[0].vertices]
            area = Sp.IntegrateShape.area(shape)
            mx = Sp.IntegrateShape.polynomial(shape, 1, 0)
            myy = Sp.IntegrateShape.polynomial(shape, 0, 2)
    except BaseException as exc:
        ctx.violation("primitive", "raised", case, repr(exc), innermost_shapepy_frame(exc))
        return
    for x in [v for pt in verts for v in pt] + [area, mx, myy]:
        if not _wellformed(x):
            ctx.violation("primitive", "not-rational", case, "%s(%r, %r): %r of type %s" % (kind, side, c, x, type(x).__name__), kind)
            return
    if sorted(verts) != sorted(want):
        ctx.violation("primitive", "vertices-not-exact", case, "%s(%r, %r): vertices %r, exact %r" % (kind, side, c, verts, want), kind)
        return
    poly = [[a, b] for a, b in zip(want, want[1:] + want[:1])]
    if area != rg.curve_moment(poly, 0, 0) or mx != rg.curve_moment(poly, 1, 0) or myy != rg.curve_moment(poly, 0, 2):
        ctx.violation("primitive", "integral-not-exact", case, "%s(%r, %r): area %r, Mx %r, Myy %r" % (kind, side, c, area, mx, myy), kind)


@st.composite
def primitive_cases(draw):
    num = st.one_of(st.integers(1, 60), st.builds(F, st.integers(1, 4000), st.sampled_from([1, 2, 3, 7, 8, 10, 1000, 9973])))
    co = st.one_of(st.integers(-50, 50), st.builds(F, st.integers(-4000, 4000), st.sampled_from([1, 2, 3, 7, 16, 1000])))
    dflt = draw(st.integers(0, 5)) == 0
    return {"kind": draw(st.sampled_from(["square", "triangle", "4-gon"])), "side": draw(num),
            "center": [0, 0] if dflt else [draw(co), draw(co)], "default_center": dflt}


def parts(tier):
    q = tier == "quick"
    pt = st.fixed_dictionaries({"x": _coord(), "y": _coord()})
    batch = st.fixed_dictionaries({"points": st.lists(st.tuples(_coord(), _coord()), min_size=40, max_size=40)})
    return [
        Part("point", judge_point, pt, n=3000 if q else 60000),
        Part("py311", judge_py311, batch, n=40 if q else 400, shards=2),
        Part("operators", judge_operators, operator_cases(), n=600 if q else 12000, budget_s=80 if q else 1500),
        Part("transform", judge_transform, transform_cases(), n=1200 if q else 24000, budget_s=60 if q else 900),
        Part("primitives", judge_primitive, primitive_cases(), n=600 if q else 12000, budget_s=40 if q else 600),
        Part("moments", judge_moments, moment_cases(), n=800 if q else 16000, budget_s=40 if q else 900),
    ]
