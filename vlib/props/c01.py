"""C01 -- Boolean operators compute the set-theoretic result, point by point"""
from __future__ import annotations

from hypothesis import strategies as st

from .. import lib, probes
from .. import opcases as oc
from .. import refgeom as rg
from .. import strategies as S
from ..engine import Part, call_limit, innermost_shapepy_frame

PROPERTY = "C01"
RULE = (
    "Hypothesis draws two operands of every kind (Empty, Whole, Simple, Connected, Disjoint; both orientations; "
    "int/Fraction/float/mixed polygons incl. non-convex templates; curved with degrees 1..3) in crossing / nested / "
    "apart configurations and an operator from | & - ^ + * (and unary ~ -), or a read-once expression tree of "
    "depth <= 3 over 3-4 atoms. Oracle: boolean algebra over the reference membership of the operands' boundary "
    "curves as generated, compared on witness points of every face of the arrangement, uniform, far, near-boundary "
    "and sagitta points (all >= 1e-5 from every boundary, 2e-4 for curved operands whose short pieces the library may degree-reduce) with (i) `p in R` and (ii) a structure-free evaluation "
    "of R from its boundary curves (sum of reference winding numbers). Operands whose boundaries touch without "
    "crossing (exact test for polygons) or cross below the conditioning thresholds (floats/curved) are counted and "
    "not judged. Any exception or a call longer than 120 s on a judged case is a violation. Non-trivial: the "
    "operand boundaries cross, or one operand lies inside the other's box."
)
MANDATORY = ["operands-with-history", "millimetre-drawing", "op:|", "op:&", "op:-", "op:^", "op:+", "op:*", "unary", "program", "curved", "crossing", "polygon-exact",
             "kind:connected", "kind:disjoint", "kind:simple", "kind:empty", "kind:whole"]
CONSTANTS = {"margin": probes.MARGIN, "margin_curved": oc.MARGIN_CURVED, "min_sin": oc.MIN_SIN, "min_kappa": oc.MIN_KAPPA}


def contact_pair(case) -> bool:
    ca = [c for s in case.get("specs", [case.get("a"), case.get("b")]) if s for c in lib.spec_curves(s)]
    specs = case.get("specs") or [case["a"], case["b"]]
    for i in range(len(specs)):
        for j in range(i + 1, len(specs)):
            ci, cj = lib.spec_curves(specs[i]), lib.spec_curves(specs[j])
            v, _ = oc.classify_pair(ci, cj)
            if v == "contact":
                return True
            if v == "identical" and not whole_identical(ci, cj):
                return True  # a shared curve between different composite operands
            if v == "identical" and len(specs) >= 3:
                # the same atom twice in an expression over other atoms too: an
                # intermediate result carries pieces of that boundary and meets
                # the other copy along them (S2 & (S0 ^ S1) with S2 = S0)
                return True
    return False


def whole_identical(ci, cj) -> bool:
    """the two operands have the same boundary curves (S op S, S op ~S)"""
    if len(ci) != len(cj):
        return False
    left = list(cj)
    for a in ci:
        for k, b in enumerate(left):
            if oc._same_curve(a, b):
                left.pop(k)
                break
        else:
            return False
    return True


def xor_curved_crossing(case) -> bool:
    """A ^ B (anywhere in the expression) with operands whose *curved or
    float* boundaries cross: xor builds (A-B)|(B-A), two shapes touching at
    numerically computed crossing points (D7)"""
    specs = case.get("specs") or [case["a"], case["b"]]
    rational = all(rg.curve_is_polygon(c) and rg.curve_is_exact(c) for s in specs for c in lib.spec_curves(s))
    if rational:
        return False

    def has_xor(p):
        return p[0] == "^" or any(has_xor(q) for q in p[1:] if isinstance(q, list))

    if "prog" in case:
        if not has_xor(case["prog"]):
            return False
    elif case.get("op") != "^":
        return False
    for i in range(len(specs)):
        for j in range(i + 1, len(specs)):
            _, n = oc.classify_pair(lib.spec_curves(specs[i]), lib.spec_curves(specs[j]))
            if n:
                return True
    return False


def abs_tolerance_pair(case) -> bool:
    """operands in general position that are closer to each other somewhere
    than the library's absolute point tolerance (1e-6) without touching:
    exact drawings in small units (D16)"""
    specs = case.get("specs") or [case["a"], case["b"]]
    for i in range(len(specs)):
        for j in range(i + 1, len(specs)):
            if oc.abs_near_contact(lib.spec_curves(specs[i]), lib.spec_curves(specs[j])):
                return True
    return False


KNOWN_CLASSES = {"operands-in-contact": contact_pair, "xor-of-crossing-float-or-curved-operands": xor_curved_crossing}
ABS_CLASS = {"operands-closer-than-the-absolute-point-tolerance": abs_tolerance_pair}


def compare_region(ctx, sub, case, view, region, curves_all, us, curved, where):
    """membership of the result against the model on decided points"""
    pts = oc.query_points(curves_all, us, curved)
    n = 0
    # pieces of curved boundaries may be degree-reduced by the library within
    # its 1e-9 squared-L2 tolerance, which moves them by up to ~7e-5
    margin = oc.MARGIN_CURVED if curved else probes.MARGIN
    for p, tag in pts:
        if not region.clear(p, margin):
            continue
        truth = region.contains(p)
        n += 1
        try:
            with call_limit(60):
                got = view.member(p)
        except BaseException as exc:
            ctx.violation(sub, "membership-query-raised", case, repr(exc), innermost_shapepy_frame(exc))
            return n
        if got is not truth:
            ctx.violation(sub, "wrong-region(in)", case,
                          "point %r (%s): model %r, `in` result %r; result kind %s" % (p, tag, truth, got, view.kind), where)
            return n
        if view.clear(p, margin):
            chi = view.chi(p)
            if chi is None or chi is not truth:
                ctx.violation(sub, "wrong-region(boundary-curves)", case,
                              "point %r (%s): model %r, winding sum of result curves gives %r; result kind %s"
                              % (p, tag, truth, chi, view.kind), where)
                return n
    return n


def judge_pair(ctx, case):
    sa, sb, op = case["a"], case["b"], case["op"]
    ca, cb = lib.spec_curves(sa), lib.spec_curves(sb)
    curved = any(len(s) > 2 for c in ca + cb for s in c)
    if ca and cb:
        verdict, ncross = oc.classify_pair(ca, cb)
    else:
        verdict, ncross = "general", 0
    if verdict == "ill":
        ctx.count("skipped-illconditioned")
        return
    if verdict in ("contact", "identical"):
        if ctx.known_class(case, KNOWN_CLASSES):
            return
        # contact is judged only when no open finding covers it
    if curved and oc.min_segment_length(ca + cb) < 1e-2:
        ctx.count("skipped-illconditioned")
        return
    if ctx.known_class(case, {"xor-of-crossing-float-or-curved-operands": xor_curved_crossing}):
        return
    if ctx.known_class(case, ABS_CLASS):
        return
    RA, RB = lib.spec_region(sa), lib.spec_region(sb)
    exact = not curved and all(rg.curve_is_exact(c) for c in ca + cb)
    ka, kb = lib.spec_kind(sa), lib.spec_kind(sb)
    strata = ["op:" + op, "kind:" + sa["k"], "kind:" + sb["k"], "config:" + case.get("config", "?"), "verdict:" + verdict]
    if curved:
        strata.append("curved")
    if ncross:
        strata.append("crossing")
    if exact:
        strata.append("polygon-exact")
    nontriv = ncross > 0 or case.get("config", "").startswith("nested")
    if case.get("config", "").endswith("-tiny"):
        strata.append("millimetre-drawing")
    if case.get("pre_a") and exact:
        strata.append("operands-with-history")
    ctx.evaluated(case, nontriv, strata)
    where = ("curved" if curved else "polygon") + ":" + op
    try:
        with call_limit(120):
            A, B = oc.build_operand(sa, case.get("pre_a")), oc.build_operand(sb, case.get("pre_b"))
            R = oc.apply_op(op, A, B)
            view = oc.ResultView(R)
    except BaseException as exc:
        ctx.violation("operator", "raised", case, "%s %s %s: %r" % (ka, op, kb, exc), innermost_shapepy_frame(exc))
        return
    region = oc.model_op(op, RA, RB)
    curves_all = ca + cb
    if not curves_all:
        want = region.contains((0.0, 0.0))
        if view.kind != ("whole" if want else "empty"):
            ctx.violation("operator", "singleton-algebra", case, "%s %s %s -> %s" % (ka, op, kb, view.kind), where)
        return
    compare_region(ctx, "operator", case, view, region, curves_all, case["us"], curved, where)
    # aliases: + and * are | and & ; checked as regions on the same points
    if op in ("|", "&") and case.get("alias"):
        try:
            with call_limit(120):
                A2, B2 = lib.build(sa), lib.build(sb)
                R2 = (A2 + B2) if op == "|" else (A2 * B2)
                v2 = oc.ResultView(R2)
        except BaseException as exc:
            ctx.violation("alias", "raised", case, repr(exc), innermost_shapepy_frame(exc))
            return
        ctx.count("stratum:op:" + ("+" if op == "|" else "*"))
        compare_region(ctx, "alias", case, v2, region, curves_all, case["us"], curved, where)


def judge_unary(ctx, case):
    sa = case["a"]
    ca = lib.spec_curves(sa)
    curved = any(len(s) > 2 for c in ca for s in c)
    RA = lib.spec_region(sa)
    ctx.evaluated(case, True, ["unary", "kind:" + sa["k"]] + (["curved"] if curved else []))
    for name in ("~", "neg"):
        try:
            with call_limit(120):
                A = lib.build(sa)
                R = ~A if name == "~" else -A
                view = oc.ResultView(R)
        except BaseException as exc:
            ctx.violation("unary", "raised", case, "%s%s: %r" % (name, lib.spec_kind(sa), exc), innermost_shapepy_frame(exc))
            continue
        if not ca:
            want = "empty" if sa["k"] == "whole" else "whole"
            if view.kind != want:
                ctx.violation("unary", "singleton-algebra", case, "%s%s -> %s" % (name, sa["k"], view.kind))
            continue
        compare_region(ctx, "unary", case, view, ~RA, ca, case["us"], curved, name)


def judge_program(ctx, case):
    specs, prog = case["specs"], case["prog"]
    curves = [lib.spec_curves(s) for s in specs]
    curved = any(len(s) > 2 for cs in curves for c in cs for s in c)
    ncross = 0
    for i in range(len(specs)):
        for j in range(i + 1, len(specs)):
            verdict, n = oc.classify_pair(curves[i], curves[j])
            ncross += n
            if verdict == "ill":
                ctx.count("skipped-illconditioned")
                return
            if verdict in ("contact", "identical"):
                if ctx.known_class(case, KNOWN_CLASSES):
                    return
    if ctx.known_class(case, {"xor-of-crossing-float-or-curved-operands": xor_curved_crossing}):
        return
    if ctx.known_class(case, ABS_CLASS):
        return
    if curved and oc.min_segment_length([c for cs in curves for c in cs]) < 1e-2:
        ctx.count("skipped-illconditioned")
        return
    ctx.evaluated(case, ncross > 0, ["program", "atoms:%d" % len(specs)] + (["curved"] if curved else []) + (["crossing"] if ncross else []))
    regions = [lib.spec_region(s) for s in specs]
    text = oc.program_str(prog)
    try:
        with call_limit(400):
            shapes = [lib.build(s) for s in specs]
            R = oc.eval_program(prog, shapes)
            view = oc.ResultView(R)
    except BaseException as exc:
        ctx.violation("program", "raised", case, "%s: %r" % (text, exc), innermost_shapepy_frame(exc))
        return
    region = oc.model_program(prog, regions)
    allc = [c for cs in curves for c in cs]
    if not allc:
        return
    compare_region(ctx, "program", case, view, region, allc, case["us"], curved, "curved" if curved else "polygon")


# ------------------------------------------------------------------ strategies
@st.composite
def pair_cases(draw, curved):
    base = draw(oc.operand_pair(curved))
    base["op"] = draw(st.sampled_from(oc.OPS))
    base["alias"] = draw(st.booleans())
    if not curved and base["nk"] in ("int", "frac") and draw(st.integers(0, 5)) == 0:
        # the same exact drawing in millimetres (edges of ~1e-3 units)
        from fractions import Fraction as F

        f = F(1, 400 * int(S.base_radius(base["nk"])))
        base["a"] = lib.spec_map(base["a"], lambda p: (p[0] * f, p[1] * f))
        base["b"] = lib.spec_map(base["b"], lambda p: (p[0] * f, p[1] * f))
        base["config"] = base["config"] + "-tiny"
        base.pop("pre_a", None)
        base.pop("pre_b", None)
    return base


@st.composite
def unary_cases(draw):
    nk, deg = draw(S.numkind_and_degrees())
    return {"a": draw(S.shape_spec(nk, deg, templates=True)), "us": draw(st.lists(st.floats(0, 1), min_size=12, max_size=12))}


@st.composite
def program_cases(draw, curved):
    n = draw(st.integers(3, 4))
    if curved:
        nk, deg = draw(st.sampled_from([("float", (1, 2)), ("float", (1, 2, 3)), ("float", (2,))]))
        n = 3
    else:
        nk, deg = draw(st.sampled_from(S.NUMKINDS)), (1,)
    R = S.base_radius(nk)
    specs = []
    for i in range(n):
        off = (draw(st.floats(-0.9, 0.9)) * R, draw(st.floats(-0.9, 0.9)) * R)
        if nk in ("int", "mixed"):
            off = (float(round(off[0])), float(round(off[1])))
        kinds = ["simple+", "simple+", "simple-", "connected+", "disjoint+"] if not curved else ["simple+", "simple+", "simple-"]
        specs.append(draw(S.shape_spec(nk, deg, center=off, R=R * draw(st.sampled_from([0.6, 0.8, 1.0])), kinds=kinds)))
    return {"specs": specs, "prog": draw(oc.program(n)), "us": draw(st.lists(st.floats(0, 1), min_size=12, max_size=12))}


def parts(tier):
    q = tier == "quick"
    return [
        Part("pairs", judge_pair, pair_cases(False), n=1200 if q else 50000, budget_s=70 if q else 2400),
        Part("pairs-curved", judge_pair, pair_cases(True), n=128 if q else 2000, budget_s=70 if q else 3000, shards=16),
        Part("unary", judge_unary, unary_cases(), n=160 if q else 5000, budget_s=40 if q else 600),
        Part("programs", judge_program, program_cases(False), n=240 if q else 10000, budget_s=60 if q else 2400),
        Part("programs-curved", judge_program, program_cases(True), n=32 if q else 400, budget_s=60 if q else 3000, shards=16),
    ]
