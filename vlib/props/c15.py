"""C15 -- Splitting and cleaning a curve never change the curve"""
from __future__ import annotations

import copy as _copy
from fractions import Fraction as F

from hypothesis import strategies as st

from .. import lib
from .. import refgeom as rg
from .. import strategies as S
from ..engine import Part, call_limit, innermost_shapepy_frame

PROPERTY = "C15"
RULE = (
    "Hypothesis draws a closed curve (degrees 1..3 mixed, every numeric kind, optionally with redundant collinear "
    "vertices) and a list of (segment, parameter) pairs: rational and float parameters, several on one segment, "
    "values within 1e-6 of 0/1 (documented as ignored), repeated and nearly equal values; then clean() and a "
    "second split/clean round. Oracle (model of the curve as generated): same orientation and area (exact for "
    "rational lines, 1e-6 otherwise); the segment list is the original one with every split segment replaced by "
    "pieces that retrace it (5 parameters per piece; exact / 1e-6, 1e-4 for pieces short enough to be degree "
    "reduced); junctions lie on the original curve at the split parameter (exact / 1e-9) and appear once in "
    ".vertices; no zero-length piece; clean() is idempotent, removes exactly the collinear vertices and, when no "
    "piece was in the degree-reduction regime, restores the original vertex list up to rotation and a curve == to "
    "the original. Non-trivial: a curved segment is split or >= 2 parameters fall on one segment."
)
MANDATORY = ["curved-split", "multi-split", "near-end-parameter", "rational-lines", "clean-redundant", "second-round"]
END_TOL = 1e-6


def close_params(case) -> bool:
    """two split parameters on the same segment closer than 1e-6 (but the
    segment is split at both): class of D12"""
    per = {}
    for idx, t in case["splits"]:
        tf = float(t)
        if abs(tf) < END_TOL or abs(tf - 1) < END_TOL:
            continue
        per.setdefault(idx, []).append(tf)
    for ts in per.values():
        ts.sort()
        for a, b in zip(ts[:-1], ts[1:]):
            if b - a < 1e-6:
                return True
    return False


def abs_parallel(case) -> bool:
    """two consecutive pieces whose end/start legs have a cross product
    below the library's absolute 1e-6 (x10 margin) without being parallel:
    PlanarCurve.__or__ then takes the 'parallel' branch and computes a
    junction parameter outside (0,1) -> AssertionError in clean() and ==.
    Happens for drawings with segments shorter than ~0.01 units."""
    curve = lib.tup(case["curve"])
    splits = [(int(i) % len(curve), t) for i, t in case["splits"]]
    per = _effective(curve, splits)
    pieces = []
    for i, seg in enumerate(curve):
        knots = [0] + list(per.get(i, [])) + [1]
        for a, b in zip(knots[:-1], knots[1:]):
            sf = [rg.fl(p) for p in seg]
            pieces.append(rg.bez_sub(sf, float(a), float(b)) if (a, b) != (0, 1) else sf)
    n = len(pieces)
    for k in range(n):
        pa, pb = pieces[k], pieces[(k + 1) % n]
        da = rg.sub(pa[-1], pa[-2])
        db = rg.sub(pb[1], pb[0])
        cr = abs(rg.cross(da, db))
        na, nb = rg.norm(da), rg.norm(db)
        if na == 0 or nb == 0:
            return True
        if cr <= 1e-5 and cr / (na * nb) > 1e-9:
            return True
    return False


def big_rational_node(case) -> bool:
    """a rational curved segment (int/Fraction control points) split at a
    rational parameter of denominator d with d^(2*degree+1) > 1e9: uniting
    the pieces again (clean, ==) overflows inside pynurbs' least squares and
    raises TypeError (degree 3: every d >= 32; observed 14 of 31 odd/32)"""
    curve = lib.tup(case["curve"])
    for i, t in list(case["splits"]) + list(case.get("round2") or []):
        if not rg.is_exact(t):
            continue
        for seg in curve:  # round2 indices refer to the split curve: be conservative
            deg = len(seg) - 1
            if deg >= 2 and all(rg.is_exact(c) for p in seg for c in p):
                if F(t).denominator ** (2 * deg + 1) > 10**9:
                    return True
    return False


def at_end_tolerance(case) -> bool:
    """a split parameter whose distance to 0 or 1 is in [1e-6, 1e-5): it is
    not ignored (the documented tolerance is < 1e-6) and leaves a piece so
    short that re-uniting it in clean() fails inside pynurbs
    (IndexError in LeastSquare.spline2spline; observed for t = 1e-06 exactly)"""
    for _, t in list(case["splits"]) + list(case.get("round2") or []):
        d = min(abs(float(t)), abs(1 - float(t)))
        if 1e-6 <= d < 1e-5:
            return True
    return False


KNOWN_CLASSES = {"split-parameters-closer-than-1e-6": close_params,
                 "split-parameter-at-the-end-tolerance": at_end_tolerance,
                 "rational-curved-split-at-big-denominator": big_rational_node,
                 "consecutive-legs-cross-below-abs-tolerance": abs_parallel}


def _effective(curve, splits):
    """model: per segment the sorted distinct effective parameters"""
    per = {}
    for idx, t in splits:
        tf = float(t)
        if abs(tf) < END_TOL or abs(tf - 1) < END_TOL:
            continue
        per.setdefault(idx, []).append(t)
    for k in per:
        per[k].sort(key=float)
        kept = []
        for t in per[k]:
            # a parameter within 1e-6 of the previous kept one is a repeat
            if kept and float(t) - float(kept[-1]) < END_TOL:
                continue
            kept.append(t)
        per[k] = kept
    return per


def _reducible(seg, t0, t1):
    """'no' / 'maybe' / 'yes': may the library degree-reduce this piece?"""
    deg = len(seg) - 1
    if deg == 1:
        return "no"
    dt = float(t1) - float(t0)
    sf = [rg.fl(p) for p in seg]
    if deg == 2:
        d = rg.norm((sf[0][0] - 2 * sf[1][0] + sf[2][0], sf[0][1] - 2 * sf[1][1] + sf[2][1])) * dt * dt
        # error = d^2/180 against 1e-9  ->  d = 4.2e-4
        return "no" if d > 2e-3 else ("yes" if d < 1e-4 else "maybe")
    d3 = rg.norm((sf[3][0] - 3 * sf[2][0] + 3 * sf[1][0] - sf[0][0], sf[3][1] - 3 * sf[2][1] + 3 * sf[1][1] - sf[0][1])) * dt**3
    # error = d3^2/2800 against 1e-9 -> d3 = 1.7e-3
    return "no" if d3 > 1e-2 else ("yes" if d3 < 3e-4 else "maybe")


def _merge_collinear(curve):
    """model of clean() on straight pieces: a vertex between two straight
    segments that are exactly aligned (same direction) is redundant.  Returns
    (curve without such vertices, decidable); not decidable when some vertex
    is almost but not exactly aligned (cross product in (0, 1e-5]), where the
    library's absolute 1e-6 test may go either way."""
    segs = [list(s) for s in curve]
    decidable = True
    changed = True
    while changed and len(segs) > 3:
        changed = False
        n = len(segs)
        for i in range(n):
            a, b = segs[i], segs[(i + 1) % n]
            if len(a) != 2 or len(b) != 2:
                continue
            da, db = rg.sub(a[1], a[0]), rg.sub(b[1], b[0])
            cr = rg.cross(da, db)
            if cr == 0 and rg.dot(da, db) > 0:
                segs[i] = [a[0], b[1]]
                segs.pop((i + 1) % n)
                changed = True
                break
            if abs(float(cr)) <= 1e-5 and rg.dot(da, db) > 0:
                decidable = False
    return segs, decidable


def _rot_equal(va, vb, exact, tol):
    n = len(va)
    if len(vb) != n:
        return False
    for r in range(n):
        ok = True
        for i in range(n):
            p, q = va[(i + r) % n], vb[i]
            if exact:
                if F(p[0]) != F(q[0]) or F(p[1]) != F(q[1]):
                    ok = False
                    break
            elif rg.dist(p, q) > tol:
                ok = False
                break
        if ok:
            return True
    return False


def _check_split(ctx, case, curve, jordan, splits, tag, where):
    """compare the library curve (already split) with the model"""
    per = _effective(curve, splits)
    got = lib.read_jordan(jordan)
    ratlines = rg.curve_is_polygon(curve) and rg.curve_is_exact(curve) and all(rg.is_exact(t) for _, t in splits)
    size = max(rg.curve_size(curve), 1.0)
    expected = []  # (orig index, t0, t1)
    for i, seg in enumerate(curve):
        knots = [0] + list(per.get(i, [])) + [1]
        for a, b in zip(knots[:-1], knots[1:]):
            expected.append((i, a, b))
    if len(got) != len(expected):
        ctx.violation(tag, "piece-count", case, "%d segments, model expects %d (effective parameters %r)" % (len(got), len(expected), per), where)
        return False
    anyred = False
    if ratlines:
        # rational polygon split at rational parameters: every stored
        # coordinate stays an int / Fraction (never silently a float)
        for piece in got:
            for p in piece:
                if not (rg.is_exact(p[0]) and rg.is_exact(p[1])):
                    ctx.violation(tag, "rational-split-became-float", case, "control point %r (%s)" % (p, type(p[0]).__name__), where)
                    return False
    for piece, (i, a, b) in zip(got, expected):
        seg = curve[i]
        red = _reducible(seg, a, b)
        anyred = anyred or red != "no"
        # no zero-length piece
        ext = max(rg.dist(p, piece[0]) for p in piece)
        if ext <= 1e-9:
            ctx.violation(tag, "zero-length-piece", case, "piece %r of segment %d [%r,%r]" % (piece, i, a, b), where)
            return False
        tol = 0 if ratlines else (1e-6 * size if red == "no" else 1e-4 * size)
        for s in (0, F(1, 4), F(1, 2), F(3, 4), 1):
            t = a + s * (b - a) if ratlines else float(a) + float(s) * (float(b) - float(a))
            want = rg.bez_eval(seg, t)
            have = rg.bez_eval(piece, s if ratlines else float(s))
            if ratlines:
                # stored control points are capped at denominator 1e9
                bad = rg.dist(want, have) > 1e-12 * size or (
                    max(F(want[0]).denominator, F(want[1]).denominator) <= 10**4 and (have[0] != want[0] or have[1] != want[1]))
            else:
                bad = rg.dist(want, have) > tol
            if bad:
                ctx.violation(tag, "piece-does-not-retrace", case,
                              "segment %d [%r,%r] at s=%s: piece gives %r, original %r (regime %s)" % (i, a, b, s, have, want, red), where)
                return False
        # junction on the original curve at the split parameter (D6 oracle)
        for par, end in ((a, piece[0]), (b, piece[-1])):
            want = rg.bez_eval(seg, par if ratlines else float(par))
            if rg.dist(want, end) > 1e-9 * size:
                ctx.violation(tag, "junction-off-the-curve", case,
                              "segment %d parameter %r: junction %r, curve point %r, distance %.3g" % (i, par, end, want, rg.dist(want, end)), where)
                return False
    # closed chain, junction once in .vertices
    if not rg.curve_is_closed(got, 0):
        ctx.violation(tag, "chain-not-closed", case, "consecutive end points differ", where)
        return False
    verts = [(lib.num(v[0]), lib.num(v[1])) for v in jordan.vertices]
    nctrl = sum(len(s) - 1 for s in got)
    if len(verts) != nctrl:
        ctx.violation(tag, "vertices-count", case, "%d vertices for %d distinct control points" % (len(verts), nctrl), where)
        return False
    return not anyred


def judge(ctx, case):
    Sp = lib.sp()
    curve = lib.tup(case["curve"])
    splits = [(int(i) % len(curve), t) for i, t in case["splits"]]
    case = dict(case, splits=[[i, t] for i, t in splits])
    if ctx.known_class(case, KNOWN_CLASSES):
        return
    per = _effective(curve, splits)
    curved_split = any(len(curve[i]) > 2 for i in per)
    multi = any(len(v) >= 2 for v in per.values())
    near_end = any(0 < abs(float(t)) < END_TOL or 0 < abs(float(t) - 1) < END_TOL for _, t in splits)
    ratlines = rg.curve_is_polygon(curve) and rg.curve_is_exact(curve) and all(rg.is_exact(t) for _, t in splits)
    strata = []
    if curved_split:
        strata.append("curved-split")
    if multi:
        strata.append("multi-split")
    if near_end:
        strata.append("near-end-parameter")
    if ratlines:
        strata.append("rational-lines")
    if case.get("redundant"):
        strata.append("clean-redundant")
    ctx.evaluated(case, curved_split or multi, strata)
    where = "curved" if not rg.curve_is_polygon(curve) else "polygon"
    size = max(rg.curve_size(curve), 1.0)
    area0 = rg.curve_area(curve)
    try:
        with call_limit(120):
            if ratlines:
                # history: the same split was done a moment ago on a float
                # rendering of the curve with float parameters; nothing of it
                # may leak into the exact computation that follows
                twin = lib.jordan_from_curve(rg.curve_map(curve, lambda p: (float(p[0]), float(p[1]))))
                twin.split([i for i, _ in splits], [float(t) for _, t in splits])
            jordan = lib.jordan_from_curve(curve)
            original = lib.jordan_from_curve(curve)
            base = lib.read_jordan(jordan)
            sign0 = float(jordan) > 0
            jordan.split([i for i, _ in splits], [t for _, t in splits])
    except BaseException as exc:
        ctx.violation("split", "raised", case, repr(exc), innermost_shapepy_frame(exc))
        return
    # the constructor may already have cleaned (degree-elevated input is not generated)
    clean_regime = _check_split(ctx, case, base, jordan, splits, "split", where)
    try:
        with call_limit(120):
            a1 = Sp.IntegrateJordan.area(jordan)
            sign1 = float(lib.jordan_from_curve(lib.read_jordan(jordan))) > 0
    except BaseException as exc:
        ctx.violation("split", "raised-after-split", case, repr(exc), innermost_shapepy_frame(exc))
        return
    if sign1 != sign0 or sign0 != (area0 > 0):
        ctx.violation("split", "orientation-changed", case, "before %r after %r model %r" % (sign0, sign1, area0 > 0), where)
    if ratlines:
        if a1 != area0:
            ctx.violation("split", "area-changed", case, "area %r, exact %r" % (a1, area0), where)
    elif abs(float(a1) - float(area0)) > 1e-6 * size * size:
        ctx.violation("split", "area-changed", case, "area %r, model %r" % (float(a1), float(area0)), where)
    # ---- clean -------------------------------------------------------------
    try:
        with call_limit(120):
            ret = jordan.clean()
            snap1 = lib.read_jordan(jordan)
            jordan.clean()
            snap2 = lib.read_jordan(jordan)
    except BaseException as exc:
        ctx.violation("clean", "raised", case, repr(exc), innermost_shapepy_frame(exc))
        return
    if ret is not jordan:
        ctx.violation("clean", "does-not-return-self", case, repr(ret), where)
    if repr(snap1) != repr(snap2):
        ctx.violation("clean", "not-idempotent", case, "second clean() changed the curve: %d -> %d segments" % (len(snap1), len(snap2)), where)
    canonical = lib.tup(case["canonical"]) if case.get("canonical") else curve
    canonical, decidable = _merge_collinear(canonical)
    if not decidable:
        ctx.count("undecided-nearly-collinear-vertex")
    elif clean_regime is True or rg.curve_is_polygon(curve):
        want = [p for seg in canonical for p in seg[:-1]]
        have = [p for seg in snap1 for p in seg[:-1]]
        if not _rot_equal(have, want, ratlines and not case.get("redundant") and all(F(t).denominator <= 64 for _, t in splits), 1e-9 * size):
            ctx.violation("clean", "segmentation-not-restored", case,
                          "after split+clean: %d control points, model %d: %r vs %r" % (len(have), len(want), have[:6], want[:6]), where)
        else:
            try:
                with call_limit(120):
                    eq = jordan == original
                if eq is not True:
                    ctx.violation("clean", "split-clean-not-equal-to-original", case, "jordan == original -> %r" % (eq,), where)
            except BaseException as exc:
                ctx.violation("clean", "equality-raised", case, repr(exc), innermost_shapepy_frame(exc))
    # ---- second round ---------------------------------------------------------
    if case.get("round2"):
        cur = lib.read_jordan(jordan)
        sp2 = [(int(i) % len(cur), t) for i, t in case["round2"]]
        sub = dict(curve=cur, splits=[[i, t] for i, t in sp2])
        if close_params(sub) and ctx.known:
            return
        ctx.evaluated(dict(case, phase="round2"), True, ["second-round"])
        try:
            with call_limit(120):
                jordan.split([i for i, _ in sp2], [t for _, t in sp2])
        except BaseException as exc:
            ctx.violation("split", "raised-in-second-round", case, repr(exc), innermost_shapepy_frame(exc))
            return
        _check_split(ctx, case, cur, jordan, sp2, "split-round2", where)
        try:
            with call_limit(120):
                a2 = Sp.IntegrateJordan.area(jordan)
        except BaseException as exc:
            ctx.violation("split", "raised-after-split", case, repr(exc), innermost_shapepy_frame(exc))
            return
        if abs(float(a2) - float(area0)) > 1e-6 * size * size:
            ctx.violation("split-round2", "area-changed", case, "area %r, model %r" % (float(a2), float(area0)), where)


# ------------------------------------------------------------------ strategies
def _param():
    return st.one_of(
        st.builds(lambda n, d: F(n % (d + 1), d), st.integers(0, 64), st.sampled_from([2, 3, 4, 5, 7, 16, 64])),
        st.floats(0.0, 1.0),
        st.sampled_from([1e-7, 1 - 1e-8, 5e-7, 0, 1, 0.0, 1.0, F(1, 2), 0.5]),
    )


@st.composite
def cases(draw):
    nk, deg = draw(S.numkind_and_degrees(curved_weight=1))
    R = S.base_radius(nk)
    curve = draw(S.simple_curve(nk, deg, (0.0, 0.0), 0.45 * R, R, draw(st.booleans()), templates=True))
    out = {"curve": curve}
    if rg.curve_is_polygon(curve) and rg.curve_is_exact(curve) and draw(st.integers(0, 2)) == 0:
        # insert redundant collinear vertices at rational parameters
        verts = rg.curve_vertices(curve)
        new = []
        for k, v in enumerate(verts):
            new.append(v)
            w = verts[(k + 1) % len(verts)]
            if draw(st.booleans()):
                t = F(draw(st.integers(1, 7)), 8)
                new.append((v[0] + (w[0] - v[0]) * t, v[1] + (w[1] - v[1]) * t))
        if len(new) > len(verts):
            out["canonical"] = curve
            out["redundant"] = True
            out["curve"] = rg.polygon_curve(new)
    n = len(out["curve"])
    k = draw(st.integers(1, 5))
    splits = []
    for _ in range(k):
        splits.append([draw(st.integers(0, n - 1)), draw(_param())])
    if draw(st.booleans()) and splits:
        # a second parameter on an already chosen segment
        splits.append([splits[0][0], draw(_param())])
    if draw(st.integers(0, 5)) == 0 and splits:
        i, t = splits[0]
        splits.append([i, t])  # exact duplicate
    if draw(st.integers(0, 7)) == 0 and splits:
        i, t = splits[0]
        splits.append([i, min(1.0, float(t) + 1e-12)])  # nearly equal
    out["splits"] = splits
    if draw(st.booleans()):
        out["round2"] = [[draw(st.integers(0, 30)), draw(_param())] for _ in range(draw(st.integers(1, 3)))]
    return out


def parts(tier):
    q = tier == "quick"
    return [Part("split-clean", judge, cases(), n=3000 if q else 80000, budget_s=80 if q else 1800)]
