"""C07 -- == is region equality and an equivalence relation"""
from __future__ import annotations

import copy as _copy
from fractions import Fraction as F

from hypothesis import strategies as st

from .. import lib
from .. import refgeom as rg
from .. import strategies as S
from ..engine import Part, call_limit, innermost_shapepy_frame
from .c15 import _reducible

PROPERTY = "C07"
RULE = (
    "Hypothesis draws a shape (every kind, rational/float polygons, curved incl. mixed degrees) and builds (i) "
    "representations that are equal by construction: start vertex of every boundary rotated, collinear vertices "
    "inserted on straight segments, curved segments split at t in [0.2,0.8] (only when the model says no piece is "
    "in the degree-reduction regime), int / Fraction / float renderings of the same dyadic coordinates, permuted "
    "components and holes, deep copies; (ii) shapes that differ by construction: one vertex moved by >= 1e-3*size, "
    "orientation reversed, a hole or a component translated (equal area), another kind. Checked on shapes and on "
    "their boundary JordanCurves: X == Y is a bool equal to the truth, X != Y its negation, reflexive, symmetric, "
    "transitive over the family. Raising is a violation. Non-trivial: different objects with different "
    "representation (equal pairs) or equal area (half of the different pairs)."
)
MANDATORY = ["equal:rotated", "equal:inserted", "equal:split-curved", "equal:numeric-type", "equal:permuted", "equal:deepcopy",
             "different:vertex-moved", "different:orientation", "different:hole-moved", "different:component-moved", "different:kind", "different:tiny-extra-component",
             "mixed-degrees", "jordan", "kind:connected", "kind:disjoint"]


# ------------------------------------------------------------------ variants
def _map_curves(spec, fn):
    """apply fn(curve, index) to every boundary curve of the spec"""
    counter = [0]

    def rec(sp):
        k = sp["k"]
        if k == "simple":
            c = fn(lib.tup(sp["curve"]), counter[0])
            counter[0] += 1
            return {"k": k, "curve": c}
        if k == "connected":
            out = []
            for c in sp["curves"]:
                out.append(fn(lib.tup(c), counter[0]))
                counter[0] += 1
            return {"k": k, "curves": out}
        if k == "disjoint":
            return {"k": k, "parts": [rec(p) for p in sp["parts"]]}
        return dict(sp)

    return rec(spec)


def rotated(spec, ks):
    return _map_curves(spec, lambda c, i: c[ks[i % len(ks)] % len(c):] + c[:ks[i % len(ks)] % len(c)])


def inserted(spec, picks):
    """split straight segments at rational parameters (collinear vertices)
    and curved ones at t in [0.2, 0.8]; returns (spec, did_curved, ok)"""
    state = {"curved": False, "ok": True, "n": 0}

    def fn(c, i):
        out = []
        for si, seg in enumerate(c):
            idx, t = picks[(i + si) % len(picks)]
            if idx % 3 != 0:
                out.append(seg)
                continue
            if len(seg) == 2:
                tt = F(1 + t % 7, 8)
                a, b = seg
                if all(rg.is_exact(v) for p in seg for v in p):
                    m = (a[0] + (b[0] - a[0]) * tt, a[1] + (b[1] - a[1]) * tt)
                else:
                    # floats: use the midpoint, exactly representable only
                    # when it is: otherwise the vertex is off the segment
                    m = ((a[0] + b[0]) / 2, (a[1] + b[1]) / 2)
                    if (m[0] - a[0]) * (b[1] - a[1]) != (m[1] - a[1]) * (b[0] - a[0]):
                        out.append(seg)
                        continue
                if t % 2 == 0 and all(rg.is_exact(v) for p in seg for v in p):
                    # two redundant vertices on the same edge (three pieces)
                    m2 = (a[0] + (b[0] - a[0]) * (tt + 1) / 2 if False else (m[0] + b[0]) / 2, (m[1] + b[1]) / 2)
                    out += [[a, m], [m, m2], [m2, b]]
                else:
                    out += [[a, m], [m, b]]
                state["n"] += 1
            else:
                tt = 0.2 + 0.6 * ((t % 7) / 6.0)
                if _reducible(seg, 0, tt) != "no" or _reducible(seg, tt, 1) != "no":
                    out.append(seg)
                    continue
                sf = [rg.fl(p) for p in seg]
                l, r = rg.bez_split(sf, tt)
                r[0] = l[-1]
                if t % 2 == 0 and _reducible(seg, 0, tt / 2) == "no" and _reducible(seg, tt / 2, tt) == "no":
                    # three consecutive pieces of one curved segment
                    l1, l2 = rg.bez_split(l, 0.5)
                    l2[0] = l1[-1]
                    l2[-1] = r[0]
                    out += [l1, l2, r]
                else:
                    out += [l, r]
                state["curved"] = True
                state["n"] += 1
        return out

    return _map_curves(spec, fn), state


def retyped(spec, mode):
    """same dyadic values as int / Fraction / float"""
    def conv(v):
        fv = F(v) if not isinstance(v, float) else F(v)
        if mode == "float":
            return float(fv)
        if mode == "frac":
            return fv
        return int(fv) if fv.denominator == 1 else fv

    return lib.spec_map(spec, lambda p: (conv(p[0]), conv(p[1])))


def permuted(spec, perm):
    k = spec["k"]
    if k == "connected":
        cs = list(spec["curves"])
        order = sorted(range(len(cs)), key=lambda i: perm[i % len(perm)] * 31 + i)
        return {"k": k, "curves": [cs[i] for i in order]}
    if k == "disjoint":
        ps = [permuted(p, perm) for p in spec["parts"]]
        order = sorted(range(len(ps)), key=lambda i: perm[(i + 1) % len(perm)] * 17 + i)
        return {"k": k, "parts": [ps[i] for i in order]}
    return spec


def translate_curve(c, v):
    return [[(p[0] + v[0], p[1] + v[1]) for p in seg] for seg in c]


# ------------------------------------------------------------------ judge
def _eq_checks(ctx, case, X, Y, truth, label, where):
    """== / != between two library objects against the truth"""
    try:
        with call_limit(240):
            e1, e2 = X == Y, Y == X
            n1 = X != Y
    except BaseException as exc:
        ctx.violation("equality", "raised", case, "%s: %r" % (label, exc), innermost_shapepy_frame(exc))
        return
    for v in (e1, e2, n1):
        if not isinstance(v, bool):
            ctx.violation("equality", "not-a-bool", case, "%s: %r" % (label, v), where)
            return
    if e1 != e2:
        ctx.violation("equality", "not-symmetric", case, "%s: X==Y %r, Y==X %r" % (label, e1, e2), where)
    elif e1 is not truth:
        ctx.violation("equality", "expected-%s" % truth, case, "%s: == gives %r" % (label, e1), where)
    if n1 is not (not e1):
        ctx.violation("equality", "ne-is-not-negation", case, "%s: == %r, != %r" % (label, e1, n1), where)


def judge(ctx, case):
    spec = case["spec"]
    Sp = lib.sp()
    curves = lib.spec_curves(spec)
    size = max([rg.curve_size(c) for c in curves] + [1.0])
    degs = {len(s) - 1 for c in curves for s in c}
    mixed = any(len({len(s) for s in c}) > 1 for c in curves)
    kind = spec["k"]
    where = ("curved" if max(degs) > 1 else "polygon") + ":" + kind
    fam = [("base", spec)]
    strata = ["kind:" + kind] + (["mixed-degrees"] if mixed else [])
    fam.append(("rotated", rotated(spec, case["rot"])))
    ins, st_ = inserted(spec, case["picks"])
    if st_["n"]:
        fam.append(("inserted", ins))
        strata.append("equal:split-curved" if st_["curved"] else "equal:inserted")
        if st_["curved"] and any(len(s) == 2 for c in lib.spec_curves(ins) for s in c):
            strata.append("equal:inserted")
    dyadic = all(isinstance(v, (int, F)) or float(v) == float(F(v).limit_denominator(64)) for c in curves for s in c for p in s for v in p)
    if dyadic and max(degs) == 1:
        fam.append(("numeric-type", retyped(spec, case["retype"])))
        strata.append("equal:numeric-type")
    if kind in ("connected", "disjoint"):
        fam.append(("permuted", permuted(spec, case["perm"])))
        strata.append("equal:permuted")
    strata += ["equal:rotated", "equal:deepcopy"]
    ctx.evaluated(case, True, strata)
    try:
        with call_limit(240):
            objs = [(name, lib.build(sp)) for name, sp in fam]
            objs.append(("deepcopy", _copy.deepcopy(objs[0][1])))
            objs.append(("copy", _copy.copy(objs[-2][1])))
    except BaseException as exc:
        ctx.violation("equality", "constructor-raised", case, repr(exc), innermost_shapepy_frame(exc))
        return
    # reflexive, and all members of the family pairwise equal (=> transitive)
    _eq_checks(ctx, case, objs[0][1], objs[0][1], True, "reflexive", where)
    for i in range(len(objs)):
        for j in range(i + 1, len(objs)):
            if (i, j) != (0, j) and (i + j) % 2 and len(objs) > 4:
                continue  # subsample: every member against the base, half of the rest
            _eq_checks(ctx, case, objs[i][1], objs[j][1], True, "%s vs %s" % (objs[i][0], objs[j][0]), where)
    # boundary curves (JordanCurve ==)
    base = objs[0][1]
    ctx.count("stratum:jordan")
    for name, o in objs[1:3]:
        if name in ("permuted",):
            continue
        try:
            ja = list(base.jordans)
            jb = list(o.jordans)
        except BaseException as exc:
            ctx.violation("equality", "raised", case, repr(exc), innermost_shapepy_frame(exc))
            break
        if len(ja) == len(jb) == 1:
            _eq_checks(ctx, case, ja[0], jb[0], True, "jordan base vs %s" % name, where)
    # ---- different by construction ------------------------------------------
    for dk, dspec in _different(spec, case, size):
        sub = dict(case, different=dk)
        ctx.evaluated(sub, dk in ("hole-moved", "component-moved", "orientation"), ["different:" + dk])
        try:
            with call_limit(240):
                other = lib.build(dspec)
        except BaseException as exc:
            ctx.violation("equality", "constructor-raised", sub, repr(exc), innermost_shapepy_frame(exc))
            continue
        _eq_checks(ctx, sub, base, other, False, "base vs " + dk, where + ":" + dk)
        if dk in ("vertex-moved", "orientation") and kind == "simple":
            _eq_checks(ctx, sub, base.jordans[0], other.jordans[0], False, "jordan base vs " + dk, where + ":" + dk)


def _different(spec, case, size):
    out = []
    kind = spec["k"]
    d = case["delta"]
    # one vertex moved by >= 1e-3 * size (keeps the curve simple: tiny move along the outward direction)
    def move(c, i):
        if i != 0:
            return c
        c = [list(seg) for seg in c]
        k = case["rot"][0] % len(c)
        p = c[k][0]
        amount = max(1e-3 * size, 1e-3) * (1 + d % 3)
        if all(rg.is_exact(v) for v in p):
            amount = F(amount).limit_denominator(10**6)
        q = (p[0] + amount, p[1] + amount)
        c[k][0] = q
        c[k - 1][-1] = q
        return c
    out.append(("vertex-moved", _map_curves(spec, move)))
    # orientation reversed (complement region)
    if kind == "simple":
        out.append(("orientation", _map_curves(spec, lambda c, i: rg.curve_reverse(c))))
    # a hole translated inside the outer boundary: same area, other region
    if kind == "connected":
        cs = [lib.tup(c) for c in spec["curves"]]
        for k in range(1, len(cs)):
            moved = translate_curve(cs[k], (case["shift"][0] * size * 0.02, case["shift"][1] * size * 0.02))
            cand = {"k": "connected", "curves": cs[:k] + [moved] + cs[k + 1:]}
            if lib.spec_valid(cand):
                out.append(("hole-moved", cand))
                break
    if kind == "disjoint":
        ps = spec["parts"]
        v = (case["shift"][0] * size * 0.02, case["shift"][1] * size * 0.02)
        moved = lib.spec_map(ps[-1], lambda p: (p[0] + v[0], p[1] + v[1]))
        cand = {"k": "disjoint", "parts": list(ps[:-1]) + [moved]}
        if lib.spec_valid(cand):
            out.append(("component-moved", cand))
        out.append(("kind", ps[0]))
    if kind == "connected":
        out.append(("kind", {"k": "simple", "curve": spec["curves"][0]}))
    if kind == "simple":
        out.append(("kind", {"k": "empty"} if d % 2 else {"k": "whole"}))
    # the same shape plus a tiny but valid extra component (area < 1e-6) far
    # outside / a tiny extra hole: different regions, areas within any tolerance
    curves = lib.spec_curves(spec)
    if all(rg.curve_is_polygon(c) for c in curves):
        box = rg.curve_box([sg for c in curves for sg in c])
        e = F(1, 2000)
        x0, y0 = F(box[2]).limit_denominator(1000) + 3, F(box[3]).limit_denominator(1000) + 3
        tiny = rg.polygon_curve([(x0, y0), (x0 + e, y0), (x0 + e, y0 + e), (x0, y0 + e)])
        if lib.spec_moment(spec) > 0:
            parts = list(spec["parts"]) if kind == "disjoint" else [spec]
            cand = {"k": "disjoint", "parts": parts + [{"k": "simple", "curve": tiny}]}
            if kind == "disjoint" and lib.spec_valid(cand):
                out.append(("tiny-extra-component", cand))
    return out


# ------------------------------------------------------------------ strategies
@st.composite
def cases(draw, curved):
    if curved:
        nk, deg = draw(st.sampled_from([("float", (1, 2)), ("float", (2,)), ("float", (1, 2, 3)), ("float", (3,)), ("frac", (1, 2))]))
    else:
        nk, deg = draw(st.sampled_from(S.NUMKINDS)), (1,)
    spec = draw(S.shape_spec(nk, deg, kinds=S.KINDS[2:], templates=not curved))
    nz = st.integers(1, 3)
    return {"spec": spec, "rot": draw(st.lists(st.integers(1, 6), min_size=4, max_size=4)),
            "picks": draw(st.lists(st.tuples(st.integers(0, 5), st.integers(0, 20)), min_size=5, max_size=5)),
            "retype": draw(st.sampled_from(["float", "frac", "int"])), "perm": draw(st.lists(st.integers(0, 9), min_size=4, max_size=4)),
            "delta": draw(st.integers(0, 5)), "shift": [draw(nz) * draw(st.sampled_from([-1, 1])), draw(nz) * draw(st.sampled_from([-1, 1]))]}


def parts(tier):
    q = tier == "quick"
    return [
        Part("polygons", judge, cases(False), n=600 if q else 30000, budget_s=60 if q else 2400),
        Part("curved", judge, cases(True), n=48 if q else 2000, budget_s=50 if q else 3000, shards=16),
    ]
