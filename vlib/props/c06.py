"""C06 -- Results are canonical, well-formed shapes; empty/whole are the singletons"""
from __future__ import annotations

from fractions import Fraction as F

from hypothesis import strategies as st

from .. import lib
from .. import opcases as oc
from .. import refgeom as rg
from .. import strategies as S
from ..engine import Part, call_limit, innermost_shapepy_frame
from . import c01

PROPERTY = "C06"
RULE = (
    "Part 'results': the operand pairs and operators of C01; every returned shape must be well formed (validity "
    "predicate written against the statement: closed chains by value, no zero-length piece, no self-crossing by "
    "the reference crossing finder, Simple = 1 boundary, Connected = one ccw curve containing pairwise-apart cw "
    "holes or pairwise-apart cw curves, Disjoint = >= 2 Simple/Connected components with pairwise disjoint "
    "interiors on witness points) and a model result that is geometrically empty / the whole plane (no witness "
    "point inside / outside) must be the EmptyShape / WholeShape singleton (identity). Part 'laws': for generated "
    "S of every kind (incl. curved): S|~S is Whole, S&~S, S-S, S^S are Empty, S^~S is Whole (identity with the "
    "singletons), ~S has the documented kind. Part 'tables' enumerates exhaustively a fixed zoo of the 8 kinds x 8 "
    "kinds x {|,&,-,^} and ~ and checks the kind of every result against the tables of docs/source/rst/shape.rst. "
    "Non-trivial: the result has >= 2 boundaries or comes from crossing boundaries; for the laws S is not a square."
)
MANDATORY = ["results", "law", "law-curved", "tables", "empty-result", "whole-result", "result:connected", "result:disjoint", "result:simple"]
KNOWN_CLASSES = c01.KNOWN_CLASSES


# ------------------------------------------------------------------ validity
def validate(shape, exact):
    """
    list of (kind, detail) problems of a returned shape.  Contacts at
    isolated points are allowed (A ^ B of crossing shapes necessarily touches
    itself at the crossing points): crossings and overlaps are detected
    through the winding numbers on witness points of the arrangement of the
    result's own boundary curves, which lie off every boundary.
    """
    problems = []
    k = lib.kind_of(shape)
    if k in ("empty", "whole"):
        return problems
    if k not in ("simple", "connected", "disjoint"):
        return [("unknown-kind", k)]
    curves = lib.read_curves(shape)
    size = max([rg.curve_size(c) for c in curves] + [1e-300])
    tol = 0 if exact else 1e-9 * max(size, 1.0)
    for ci, c in enumerate(curves):
        if not rg.curve_is_closed(c, tol):
            problems.append(("chain-not-closed", "curve %d" % ci))
        for si, seg in enumerate(c):
            if max(rg.dist(p, seg[0]) for p in seg) <= 1e-9:
                problems.append(("zero-length-piece", "curve %d segment %d %r" % (ci, si, seg)))
    if problems:
        return problems
    atoms = [rg.Atom(c) for c in curves]
    try:
        ws = rg.witness_points(curves, max_per_seg=3)
    except rg.Degenerate:
        return [("boundary-not-isolated", "pieces of the boundary overlap or touch non-transversally beyond resolution")]
    # stored crossing vertices are rounded (1e9 denominator cap, 1e-9 point
    # identification): two copies of one crossing may differ by ~1e-18 and
    # leave slivers of that width; witnesses closer than the library's point
    # tolerance to a boundary say nothing about the structure
    margin = (1e-7 if not exact else 1e-9) * max(size, 1.0)
    ws = [w for w in ws if all(a.clear(w, margin) for a in atoms)]
    # (c) every curve alone is (weakly) simple: winding in {0, sign}
    for ci, a in enumerate(atoms):
        sign = 1 if a.ccw else -1
        for w in ws:
            v = a.winding(w)
            if v not in (0, sign):
                problems.append(("self-crossing", "curve %d winds %d times about %r" % (ci, v, rg.fl(w))))
                break
    if problems:
        return problems

    def check_connected(idx, label):
        """idx: indices into atoms forming one connected component"""
        out = []
        if len(idx) < 2:
            return [("connected-with-one-boundary", label)]
        pos = [i for i in idx if atoms[i].ccw]
        if len(pos) > 1:
            return [("connected-with-two-outer-boundaries", label)]
        for w in ws:
            inside_holes = [i for i in idx if not atoms[i].ccw and atoms[i].winding(w) == -1]
            if len(inside_holes) > 1:
                out.append(("holes-overlap", "%s: witness %r inside %d holes" % (label, rg.fl(w), len(inside_holes))))
                break
            if pos and inside_holes and atoms[pos[0]].winding(w) != 1:
                out.append(("hole-not-inside-outer-boundary", "%s: witness %r" % (label, rg.fl(w))))
                break
        return out

    def indices(sub):
        """positions in `curves` of the boundary curves of a sub-shape"""
        out = []
        for j in sub.jordans:
            c = lib.read_jordan(j)
            for i, cc in enumerate(curves):
                if i not in out and repr(cc) == repr(c):
                    out.append(i)
                    break
        return out

    if k == "simple":
        if len(curves) != 1:
            problems.append(("simple-with-%d-boundaries" % len(curves), ""))
    elif k == "connected":
        if any(lib.kind_of(s) != "simple" for s in shape.subshapes):
            problems.append(("connected-subshape-not-simple", ""))
        problems += check_connected(list(range(len(curves))), "connected")
    else:
        subs = shape.subshapes
        if len(subs) < 2:
            problems.append(("disjoint-with-%d-components" % len(subs), ""))
        comps = []
        for i, sub in enumerate(subs):
            sk = lib.kind_of(sub)
            idx = indices(sub)
            comps.append(idx)
            if sk == "connected":
                problems += check_connected(idx, "component %d" % i)
            elif sk != "simple":
                problems.append(("component-kind", "%d: %s" % (i, sk)))
        if not problems:
            for w in ws:
                n = 0
                for idx in comps:
                    if all(atoms[i].contains(w) for i in idx):
                        n += 1
                if n > 1:
                    problems.append(("components-overlap", "witness %r in %d components" % (rg.fl(w), n)))
                    break
    # (d) the curves bound a region: total winding + offset in {0, 1}
    if not problems:
        off = 1 if sum(float(a.area) for a in atoms) < 0 else 0
        for w in ws:
            v = sum(a.winding(w) for a in atoms) + off
            if v not in (0, 1):
                problems.append(("curves-do-not-bound-a-region", "total winding %d at %r" % (v, rg.fl(w))))
                break
    return problems


def model_extent(region, curves):
    """'empty' / 'whole' / 'proper' by witness points (exact for polygons)"""
    try:
        ws = rg.witness_points(curves, max_per_seg=3)
    except rg.Degenerate:
        return None
    if not ws:
        return None
    vals = {region.contains(w) for w in ws}
    if vals == {False}:
        return "empty"
    if vals == {True}:
        return "whole"
    return "proper"


# ------------------------------------------------------------------ judges
def judge_results(ctx, case):
    sa, sb, op = case["a"], case["b"], case["op"]
    ca, cb = lib.spec_curves(sa), lib.spec_curves(sb)
    curved = any(len(s) > 2 for c in ca + cb for s in c)
    verdict, ncross = oc.classify_pair(ca, cb) if ca and cb else ("general", 0)
    if verdict == "ill" or (curved and oc.min_segment_length(ca + cb) < 1e-2):
        ctx.count("skipped-illconditioned")
        return
    if verdict in ("contact", "identical") and ctx.known_class(case, KNOWN_CLASSES):
        return
    if ctx.known_class(case, c01.ABS_CLASS):
        return
    if ctx.known_class(case, {"xor-of-crossing-float-or-curved-operands": c01.xor_curved_crossing}):
        return
    exact = not curved and all(rg.curve_is_exact(c) for c in ca + cb)
    try:
        with call_limit(180):
            A, B = oc.build_operand(sa, case.get("pre_a")), oc.build_operand(sb, case.get("pre_b"))
            R = oc.apply_op(op, A, B)
            kind = lib.kind_of(R)
            problems = validate(R, exact)
            ncurves = len(lib.read_curves(R))
    except BaseException as exc:
        ctx.evaluated(case, ncross > 0, ["results"])
        ctx.violation("results", "raised", case, repr(exc), innermost_shapepy_frame(exc))
        return
    strata = ["results", "result:" + kind, "op:" + op]
    region = oc.model_op(op, lib.spec_region(sa), lib.spec_region(sb))
    extent = model_extent(region, ca + cb) if (ca or cb) else ("whole" if region.contains((0.0, 0.0)) else "empty")
    if extent in ("empty", "whole"):
        strata.append(extent + "-result")
    ctx.evaluated(case, ncross > 0 or ncurves >= 2, strata)
    where = ("curved" if curved else "polygon") + ":" + op
    for pk, detail in problems[:1]:
        ctx.violation("results", "malformed:" + pk, case, "%s %s %s -> %s: %s" % (lib.spec_kind(sa), op, lib.spec_kind(sb), kind, detail), where)
    if extent == "empty" and R is not lib.sp().EmptyShape():
        ctx.violation("results", "empty-region-not-the-singleton", case, "%s %s %s -> %s" % (lib.spec_kind(sa), op, lib.spec_kind(sb), kind), where)
    if extent == "whole" and R is not lib.sp().WholeShape():
        ctx.violation("results", "whole-region-not-the-singleton", case, "%s %s %s -> %s" % (lib.spec_kind(sa), op, lib.spec_kind(sb), kind), where)
    if extent == "proper" and kind in ("empty", "whole"):
        ctx.violation("results", "proper-region-returned-as-singleton", case, "%s %s %s -> %s" % (lib.spec_kind(sa), op, lib.spec_kind(sb), kind), where)


NOT_KIND = {"empty": {"whole"}, "whole": {"empty"}, "simple": {"simple"}, "connected": {"disjoint"}, "disjoint": {"connected", "disjoint"}}


def judge_laws(ctx, case):
    spec = case["a"]
    Sp = lib.sp()
    curves = lib.spec_curves(spec)
    curved = any(len(s) > 2 for c in curves for s in c)
    ctx.evaluated(case, True, ["law", "law-curved" if curved else "law-polygon", "kind:" + lib.spec_kind(spec)])
    E, W = Sp.EmptyShape(), Sp.WholeShape()
    laws = [("S|~S", lambda s: s | ~s, W), ("S&~S", lambda s: s & ~s, E), ("S-S", lambda s: s - lib.build(spec), E),
            ("S^S", lambda s: s ^ lib.build(spec), E), ("S^~S", lambda s: s ^ ~s, W), ("~S|S", lambda s: ~s | s, W),
            ("~S&S", lambda s: ~s & s, E)]
    for name, fn, want in laws:
        try:
            with call_limit(240):
                s = lib.build(spec)
                got = fn(s)
        except BaseException as exc:
            ctx.violation("law", "raised", case, "%s on %s: %r" % (name, lib.spec_kind(spec), exc), innermost_shapepy_frame(exc))
            continue
        if got is not want:
            ctx.violation("law", name, case, "%s on %s -> %s (%r), expected the %s singleton"
                          % (name, lib.spec_kind(spec), lib.kind_of(got), got, "Whole" if want is W else "Empty"),
                          "curved" if curved else "polygon")
    try:
        with call_limit(120):
            inv = ~lib.build(spec)
            k = lib.kind_of(inv)
            problems = validate(inv, not curved and all(rg.curve_is_exact(c) for c in curves))
    except BaseException as exc:
        ctx.violation("law", "complement-raised", case, repr(exc), innermost_shapepy_frame(exc))
        return
    if k not in NOT_KIND[spec["k"]]:
        ctx.violation("law", "complement-kind", case, "~%s -> %s, documented %s" % (spec["k"], k, sorted(NOT_KIND[spec["k"]])))
    for pk, detail in problems[:1]:
        ctx.violation("law", "complement-malformed:" + pk, case, detail)


# kind tables of docs/source/rst/shape.rst (cells that are not 'any')
def table_allowed(op, ka, kb):
    E, W = "empty", "whole"
    D = {"simple", "connected", "disjoint"}
    if op == "|":
        if ka == W or kb == W:
            return {W}
        if ka == E:
            return {kb}
        if kb == E:
            return {ka}
        return D | {W}
    if op == "&":
        if ka == E or kb == E:
            return {E}
        if ka == W:
            return {kb}
        if kb == W:
            return {ka}
        return D | {E}
    if op == "-":
        if ka == E or kb == W:
            return {E}
        if kb == E:
            return {ka}
        if ka == W:
            return NOT_KIND[kb]
        return D | {E}
    if op == "^":
        if ka == E:
            return {kb}
        if kb == E:
            return {ka}
        if ka == W:
            return NOT_KIND[kb]
        if kb == W:
            return NOT_KIND[ka]
        return D | {E, W}
    raise ValueError(op)


def _zoo(shift):
    sq = lambda x, y, s: [(x, y), (x + s, y), (x + s, y + s), (x, y + s)]
    P = lambda v: rg.polygon_curve([(a + shift[0], b + shift[1]) for a, b in v])
    Pr = lambda v: rg.curve_reverse(P(v))
    return {
        "empty": {"k": "empty"}, "whole": {"k": "whole"},
        "simple+": {"k": "simple", "curve": P([(0, 0), (12, 1), (7, 11)])},
        "simple-": {"k": "simple", "curve": Pr([(1, 1), (11, 2), (6, 9)])},
        "connected+": {"k": "connected", "curves": [P(sq(0, 0, 14)), Pr(sq(2, 2, 3)), Pr(sq(8, 7, 4))]},
        "connected-": {"k": "connected", "curves": [Pr(sq(0, 0, 4)), Pr(sq(9, 8, 5))]},
        "disjoint+": {"k": "disjoint", "parts": [{"k": "simple", "curve": P(sq(0, 0, 5))}, {"k": "simple", "curve": P([(8, 6), (15, 7), (10, 13)])}]},
        "disjoint-": {"k": "disjoint", "parts": [{"k": "simple", "curve": Pr(sq(0, 0, 16))}, {"k": "simple", "curve": P(sq(5, 5, 4))}]},
    }


def _table_cases():
    za, zb = _zoo((0, 0)), _zoo((F(7, 3), F(5, 4)))
    out = []
    for ka, a in za.items():
        out.append({"a": a, "ka": ka, "op": "~"})
        for kb, b in zb.items():
            for op in ("|", "&", "-", "^"):
                out.append({"a": a, "b": b, "ka": ka, "kb": kb, "op": op})
    return out


def judge_tables(ctx, case):
    a, op = case["a"], case["op"]
    ctx.evaluated(case, True, ["tables"])
    try:
        with call_limit(120):
            if op == "~":
                R = ~lib.build(a)
                allowed = NOT_KIND[a["k"]]
            else:
                R = oc.apply_op(op, lib.build(a), lib.build(case["b"]))
                allowed = table_allowed(op, a["k"], case["b"]["k"])
            k = lib.kind_of(R)
            problems = validate(R, True)
    except BaseException as exc:
        ctx.violation("tables", "raised", case, "%s %s %s: %r" % (case["ka"], op, case.get("kb"), exc), innermost_shapepy_frame(exc))
        return
    if k not in allowed:
        ctx.violation("tables", "kind-not-in-table", case, "%s %s %s -> %s, table allows %s" % (case["ka"], op, case.get("kb", ""), k, sorted(allowed)))
    for pk, detail in problems[:1]:
        ctx.violation("tables", "malformed:" + pk, case, "%s %s %s -> %s: %s" % (case["ka"], op, case.get("kb", ""), k, detail))


# ------------------------------------------------------------------ strategies
@st.composite
def law_cases(draw, curved):
    if curved:
        nk, deg = draw(st.sampled_from([("float", (1, 2)), ("float", (2,)), ("float", (1, 2, 3)), ("float", (3,))]))
        kinds = ["simple+", "simple-", "connected+", "disjoint+", "connected-"]
    else:
        nk, deg = draw(st.sampled_from(S.NUMKINDS)), (1,)
        kinds = S.KINDS[2:]
    return {"a": draw(S.shape_spec(nk, deg, kinds=kinds, templates=not curved))}


def parts(tier):
    q = tier == "quick"
    return [
        Part("results", judge_results, c01.pair_cases(False), n=1000 if q else 40000, budget_s=70 if q else 2400),
        Part("results-curved", judge_results, c01.pair_cases(True), n=64 if q else 1500, budget_s=70 if q else 3000, shards=16),
        Part("laws", judge_laws, law_cases(False), n=300 if q else 8000, budget_s=60 if q else 1200),
        Part("laws-curved", judge_laws, law_cases(True), n=32 if q else 600, budget_s=90 if q else 3000, shards=16),
        Part("tables", judge_tables, cases=_table_cases, exhaustive=True),
    ]
