"""C02 -- Point membership is geometric truth, with the documented boundary rule"""
from __future__ import annotations

from fractions import Fraction as F

from hypothesis import strategies as st

from .. import lib, probes
from .. import refgeom as rg
from .. import strategies as S
from ..engine import Part, call_limit, innermost_shapepy_frame

PROPERTY = "C02"
RULE = (
    "Hypothesis draws one shape of every kind (Empty, Whole, Simple, Connected, Disjoint; bounded and unbounded; "
    "int/Fraction/float/mixed coordinates; segment degrees 1..3) and parameters for query points: uniform in the "
    "inflated box, far points, points at +-{1e-2,1e-3,1e-4}*size (>= 2e-5) from the boundary along the normal, "
    "points between (sub-)chords and arcs of every curved segment, vertices and on-edge points. Oracle: reference "
    "winding number by exact crossing number (polygons) or de Casteljau subdivision (curves), combined by the "
    "kind rule; points closer than 1e-5 to a boundary without being on it are undecided. A query is non-trivial "
    "when the point lies inside the bounding box of the shape; the count is over distinct (shape, point) cases."
)
MANDATORY = ["shape-with-history", "curved-critical-inside", "curved-critical-outside", "boundary-curved", "boundary-straight",
             "kind:simple+", "kind:simple-", "kind:connected+", "kind:connected-", "kind:disjoint+",
             "kind:disjoint-", "kind:empty", "kind:whole"]
CONSTANTS = {"margin": probes.MARGIN}


def _pt(p, mode):
    """query point in the requested representation; returns (arg, value)"""
    if mode == 1:
        q = (F(p[0]).limit_denominator(512), F(p[1]).limit_denominator(512))
        return q, q
    if mode == 2:
        q = (int(round(p[0])), int(round(p[1])))
        return q, q
    if mode == 3:
        q = (float(p[0]), float(p[1]))
        return lib.sp().Point2D(q), q
    if mode == 4:
        q = (float(p[0]), float(p[1]))
        return [q[0], q[1]], q
    q = (float(p[0]), float(p[1]))
    return q, q


def _in_curved_hull(curves, p):
    for c in curves:
        for seg in c:
            if len(seg) > 2:
                b = rg.bez_box([rg.fl(q) for q in seg])
                if b[0] <= p[0] <= b[2] and b[1] <= p[1] <= b[3]:
                    return True
    return False


def judge(ctx, case):
    spec = case["spec"]
    us = case.get("us", [0.5] * 16)
    mode = case.get("ptype", 0)
    Sp = lib.sp()
    kind = lib.spec_kind(spec)
    hist = case.get("hist") if spec["k"] not in ("empty", "whole") else None
    try:
        with call_limit(60):
            shape = lib.build(spec)
            if hist:
                # the shape is asked a few questions where it was built and is
                # then transformed in place; the model is transformed alike
                from .c09 import apply_step, model_step

                c0 = lib.spec_curves(spec)[0][0][0]
                _ = (float(c0[0]) + 0.3, float(c0[1]) + 0.2) in shape
                shape.box()
                float(shape)
                for j in shape.jordans:
                    float(j)
                    j.box()
                    j.segments[0](0.5)
                for step in hist:
                    apply_step(shape, step)
                    spec = lib.spec_map(spec, lambda p, st_=step: model_step([[[p, p]]], st_)[0][0][0])
    except BaseException as exc:
        ctx.violation("build", "constructor-raised", case, repr(exc), innermost_shapepy_frame(exc))
        return
    if spec["k"] in ("empty", "whole"):
        want = spec["k"] == "whole"
        pts = [(100 * (u - 0.5), 100 * (v - 0.5)) for u, v in zip(us[::2], us[1::2])]
        pts += [(0, 0), (1e9, -1e9)]
        for i, p in enumerate(pts):
            arg, q = _pt(p, (mode + i) % 5)
            sub = dict(case, point=list(q))
            ctx.evaluated(sub, True, ["kind:" + kind])
            try:
                got = arg in shape
            except BaseException as exc:
                ctx.violation("singleton", "raised", sub, repr(exc), innermost_shapepy_frame(exc))
                continue
            if got is not want:
                ctx.violation("singleton", "membership", sub, "%r in %s -> %r" % (q, kind, got))
        return
    curves = lib.spec_curves(spec)
    region = lib.spec_region(spec)
    curved = any(len(s) > 2 for c in curves for s in c)
    box = probes.box_of(curves, 0)
    if "point" in case:  # replay of one recorded query
        pts = [(tuple(case["point"]), case.get("tag", "replay"))]
    elif "boundary_point" in case:
        pts = []
    else:
        pts = [(p, "uniform") for p in probes.uniform_points(curves, us)]
        pts += [(p, "far") for p in probes.far_points(curves)]
        pts += [(p, "near") for p in probes.near_boundary_points(curves, us)]
        pts += [(p, "sagitta") for p in probes.sagitta_points(curves, us=us)]
    jordans = list(shape.jordans)
    for i, (p, tag) in enumerate(pts):
        m = mode if tag != "far" else 0
        if curved and m in (1, 2):
            ctx.count("rational-point-on-curved-shape")
        if "point" in case:
            arg = q = tuple(p)  # replay: the recorded point, verbatim
        else:
            arg, q = _pt(p, m)
        if not probes.decided(region, q):
            ctx.count("undecided")
            continue
        truth = region.contains(q)
        inbox = box[0] <= q[0] <= box[2] and box[1] <= q[1] <= box[3]
        crit = curved and _in_curved_hull(curves, q)
        strata = ["kind:" + kind, "tag:" + tag] + (["shape-with-history"] if hist else [])
        if crit:
            strata.append("curved-critical-inside" if truth else "curved-critical-outside")
        sub = dict(spec=spec, point=list(q), ptype=mode, tag=tag)
        ctx.evaluated(sub, inbox, strata)
        where = "curved-critical" if crit else ("curved" if curved else "polygon")
        try:
            with call_limit(60):
                single = "point" in case
                got = (shape.contains_point(arg, True), shape.contains_point(arg, False),
                       (arg in shape) if (i % 3 == 0 or single) else truth)
                onj = [arg in j for j in jordans] if (i % 3 == 1 or single) else []
        except BaseException as exc:
            ctx.violation("query", "raised", sub, repr(exc), innermost_shapepy_frame(exc))
            continue
        if got != (truth, truth, truth):
            ctx.violation("membership", "interior" if truth else "exterior", sub,
                          "%s point %r (%s): truth %r, contains_point(True/False)/in = %r" % (kind, q, tag, truth, got), where)
        if any(onj):
            ctx.violation("on-curve", "off-curve-point-reported-on-jordan", sub,
                          "point %r at distance %.3g" % (q, min(rg.curve_dist(c, q) for c in curves)), where)
    # boundary rule
    if "point" in case:
        return
    if "boundary_point" in case:
        bps = [(tuple(case["boundary_point"]), case["curve"], case["segment"], case["t"])]
    else:
        bps = probes.boundary_points(curves, us)
    for (b, ci, si, t) in bps:
        seg = curves[ci][si]
        iscurved = len(seg) > 2
        exact = all(rg.is_exact(v) for v in b)
        arg = tuple(b) if exact else (float(b[0]), float(b[1]))
        sub = dict(spec=spec, boundary_point=list(arg), curve=ci, segment=si, t=t)
        ctx.evaluated(sub, True, ["kind:" + kind, "boundary-curved" if iscurved else "boundary-straight"])
        try:
            with call_limit(60):
                got = (shape.contains_point(arg, True), shape.contains_point(arg, False), arg in shape,
                       any(arg in j for j in jordans))
        except BaseException as exc:
            ctx.violation("query", "raised-on-boundary-point", sub, repr(exc), innermost_shapepy_frame(exc))
            continue
        if got != (True, False, True, True):
            ctx.violation("boundary-rule", "curved" if iscurved else "straight", sub,
                          "boundary point %r (segment %d of curve %d, t=%r): (closed, open, in, in jordan) = %r, expected (True, False, True, True)"
                          % (arg, si, ci, t, got) + " kind " + kind)


@st.composite
def cases(draw):
    nk, deg = draw(S.numkind_and_degrees(curved_weight=2))
    spec = draw(S.shape_spec(nk, deg, templates=True))
    us = draw(st.lists(st.floats(0.0, 1.0), min_size=16, max_size=16))
    out = {"nk": nk, "deg": list(deg), "spec": spec, "us": us, "ptype": draw(st.integers(0, 4))}
    if draw(st.integers(0, 3)) == 0:
        from .c09 import step

        out["hist"] = draw(st.lists(step(nk in ("int", "frac")), min_size=1, max_size=2))
    return out


def parts(tier):
    q = tier == "quick"
    return [Part("membership", judge, cases(), n=640 if q else 16000, budget_s=75 if q else 1500)]
