"""C05 -- Operator results are measure-consistent (inclusion-exclusion)"""
from __future__ import annotations

from fractions import Fraction as F

from hypothesis import strategies as st

from .. import lib
from .. import opcases as oc
from .. import refgeom as rg
from .. import strategies as S
from ..engine import Part, call_limit, innermost_shapepy_frame
from . import c01

PROPERTY = "C05"
RULE = (
    "The operand pairs of C01 (every kind and orientation, rational/float polygons, curved) and read-once programs; "
    "for every moment (a,b) with a+b <= 2, evaluated with IntegrateShape.polynomial on results computed from "
    "separately built fresh operands (Whole and Empty count 0): m(A|B)+m(A&B) = m(A)+m(B), m(A-B) = m(A)-m(A&B), "
    "m(A^B) = m(A|B)-m(A&B), m(~A) = -m(A), and m(A), m(B) equal the reference's exact polynomial integral. Exact "
    "Fraction equality for rational polygons whose crossings are representable below the 1e9 denominator cap "
    "(decided by the reference's exact crossings), 1e-9 of the absolute contributions when the cap rounds, 1e-5 "
    "for float and curved operands. Contact configurations and xor of crossing float/curved operands (open "
    "findings) are excluded and counted. Non-trivial: the operand boundaries cross."
)
MANDATORY = ["operands-with-history", "exact", "capped", "float", "curved", "crossing", "identity:union-intersection", "identity:difference", "identity:xor", "identity:complement"]
MOMENTS = [(0, 0), (1, 0), (0, 1), (2, 0), (1, 1), (0, 2)]
KNOWN_CLASSES = c01.KNOWN_CLASSES


def moment(shape, a, b, maxdeg=1):
    """IntegrateShape.polynomial; for curved boundaries with a node count
    that makes the open Newton-Cotes rule exact for the integrand, so that
    quadrature error (C04) does not pollute the measure identities"""
    k = lib.kind_of(shape)
    if k in ("empty", "whole"):
        return 0
    if maxdeg > 1:
        return lib.sp().IntegrateShape.polynomial(shape, a, b, maxdeg * (a + b + 2) + 1)
    return lib.sp().IntegrateShape.polynomial(shape, a, b)


def abs_scale(curves, a, b):
    from .c04 import _abs_scale

    return _abs_scale(curves, a, b) if curves else 1.0


def _exact_regime(ca, cb):
    """'exact' when every crossing (and the intermediates of the library's
    subdivision formula) fits under the denominator cap, else 'capped'"""
    from .c13 import CAP

    # every difference of two stored vertices (derivative control points of
    # the quadrature) must also fit under the cap: crossing denominator times
    # the largest vertex denominator
    vmax = max([x.denominator for c in ca + cb for s in c for q in s for x in rg.exp(q)] or [1])
    for A in ca:
        for B in cb:
            for sa in A:
                for sb in B:
                    r = rg.segments_intersect_exact(rg.exp(sa[0]), rg.exp(sa[1]), rg.exp(sb[0]), rg.exp(sb[1]))
                    if r is None or r[0] != "point":
                        continue
                    da = max(x.denominator for q in sa for x in rg.exp(q))
                    db = max(x.denominator for q in sb for x in rg.exp(q))
                    if max(F(r[1]).denominator * da, F(r[2]).denominator * db) > CAP:
                        return "capped"
                    vmax = max(vmax, r[3][0].denominator, r[3][1].denominator)
    # the difference of any two stored vertices (two crossings may bound one
    # result segment) must fit under the cap as well
    return "exact" if vmax * vmax <= CAP else "capped"


def judge(ctx, case):
    sa, sb = case["a"], case["b"]
    ca, cb = lib.spec_curves(sa), lib.spec_curves(sb)
    curved = any(len(s) > 2 for c in ca + cb for s in c)
    verdict, ncross = oc.classify_pair(ca, cb) if ca and cb else ("general", 0)
    if verdict == "ill" or (curved and oc.min_segment_length(ca + cb) < 1e-2):
        ctx.count("skipped-illconditioned")
        return
    if verdict in ("contact", "identical") and ctx.known_class(case, KNOWN_CLASSES):
        return
    skip_xor = ctx.known_class(dict(case, op="^"), {"xor-of-crossing-float-or-curved-operands": c01.xor_curved_crossing})
    rational = not curved and all(rg.curve_is_exact(c) for c in ca + cb)
    regime = _exact_regime(ca, cb) if rational else ("curved" if curved else "float")
    strata = [regime, "kind:" + sa["k"], "kind:" + sb["k"]] + (["crossing"] if ncross else [])
    if case.get("pre_a") and rational:
        strata.append("operands-with-history")
    ctx.evaluated(case, ncross > 0, strata)
    where = regime
    results = {}
    try:
        with call_limit(400):
            for op in ("|", "&", "-") + (() if skip_xor else ("^",)):
                A, B = oc.build_operand(sa, case.get("pre_a")), oc.build_operand(sb, case.get("pre_b"))
                results[op] = oc.apply_op(op, A, B)
            A, B = lib.build(sa), lib.build(sb)
            results["~"] = ~A
            results["A"], results["B"] = A, B
            maxdeg = max([len(s) - 1 for c in ca + cb for s in c] or [1])
            vals = {k: [moment(v, a, b, maxdeg) for (a, b) in MOMENTS] for k, v in results.items()}
    except BaseException as exc:
        ctx.violation("identity", "raised", case, repr(exc), innermost_shapepy_frame(exc))
        return
    for i, (a, b) in enumerate(MOMENTS):
        scale = abs_scale(ca, a, b) + abs_scale(cb, a, b)
        mA, mB = vals["A"][i], vals["B"][i]
        if regime == "exact":
            tol = 0
        elif regime == "capped":
            tol = 1e-9 * scale
        else:
            tol = 1e-5 * scale

        def differ(x, y):
            if tol == 0:
                return x != y
            return abs(float(x) - float(y)) > tol

        # operands against the reference (C04 oracle)
        for name, spec, val in (("A", sa, mA), ("B", sb, mB)):
            ref = lib.spec_moment(spec, a, b) if spec["k"] not in ("empty", "whole") else 0
            if (rational and val != ref) or (not rational and abs(float(val) - float(ref)) > 1e-9 * scale):
                ctx.violation("identity", "operand-moment", case, "m_%d%d(%s) = %r, reference %r" % (a, b, name, val, ref), where)
                return
        checks = [("union-intersection", vals["|"][i] + vals["&"][i], mA + mB),
                  ("difference", vals["-"][i], mA - vals["&"][i]),
                  ("complement", vals["~"][i], -mA)]
        if not skip_xor:
            checks.append(("xor", vals["^"][i], vals["|"][i] - vals["&"][i]))
        for name, lhs, rhs in checks:
            ctx.count("stratum:identity:" + name)
            if differ(lhs, rhs):
                ctx.violation("identity", name, case,
                              "moment (%d,%d): %r vs %r (difference %.3g, tolerance %.3g); kinds %s, %s; results %s"
                              % (a, b, lhs, rhs, float(lhs) - float(rhs), tol, lib.spec_kind(sa), lib.spec_kind(sb),
                                 {k: lib.kind_of(v) for k, v in results.items() if k not in ("A", "B")}), where)
                return
            if rational and tol == 0 and not all(isinstance(x, (int, F)) for x in (lhs, rhs)):
                ctx.violation("identity", "rational-moment-not-rational", case, "%r / %r" % (lhs, rhs), where)
                return


def judge_program(ctx, case):
    """m(P op Q) identities on the top node of a read-once program"""
    specs, prog = case["specs"], case["prog"]
    if prog[0] not in oc.OPS:
        ctx.count("program-top-is-unary")
        return
    curves = [lib.spec_curves(s) for s in specs]
    curved = any(len(s) > 2 for cs in curves for c in cs for s in c)
    for i in range(len(specs)):
        for j in range(i + 1, len(specs)):
            verdict, n = oc.classify_pair(curves[i], curves[j])
            if verdict == "ill":
                ctx.count("skipped-illconditioned")
                return
            if verdict in ("contact", "identical") and ctx.known_class(case, KNOWN_CLASSES):
                return
    if ctx.known_class(case, {"xor-of-crossing-float-or-curved-operands": c01.xor_curved_crossing}):
        return
    rational = not curved and all(rg.curve_is_exact(c) for cs in curves for c in cs)
    ctx.evaluated(case, True, ["program", "rational" if rational else "float"])
    try:
        with call_limit(600):
            def sub(p):
                return oc.eval_program(p, [lib.build(s) for s in specs])
            P, Q = sub(prog[1]), sub(prog[2])
            U = oc.apply_op("|", sub(prog[1]), sub(prog[2]))
            I = oc.apply_op("&", sub(prog[1]), sub(prog[2]))
            D = oc.apply_op("-", sub(prog[1]), sub(prog[2]))
            maxdeg = max([len(s) - 1 for cs in curves for c in cs for s in c] or [1])
            vals = {k: [moment(v, a, b, maxdeg) for (a, b) in MOMENTS[:3]] for k, v in dict(P=P, Q=Q, U=U, I=I, D=D).items()}
    except BaseException as exc:
        ctx.violation("program", "raised", case, "%s: %r" % (oc.program_str(prog), exc), innermost_shapepy_frame(exc))
        return
    allc = [c for cs in curves for c in cs]
    for i, (a, b) in enumerate(MOMENTS[:3]):
        scale = abs_scale(allc, a, b)
        tol = (1e-9 if rational else 1e-5) * scale
        for name, lhs, rhs in (("union-intersection", vals["U"][i] + vals["I"][i], vals["P"][i] + vals["Q"][i]),
                               ("difference", vals["D"][i], vals["P"][i] - vals["I"][i])):
            if abs(float(lhs) - float(rhs)) > tol:
                ctx.violation("program", name, case, "%s moment (%d,%d): %r vs %r" % (oc.program_str(prog), a, b, float(lhs), float(rhs)))
                return


def parts(tier):
    q = tier == "quick"
    return [
        Part("pairs", judge, oc.operand_pair(False), n=700 if q else 20000, budget_s=75 if q else 2400),
        Part("pairs-curved", judge, oc.operand_pair(True), n=128 if q else 2000, budget_s=75 if q else 3000, shards=16),
        Part("programs", judge_program, c01.program_cases(False), n=160 if q else 5000, budget_s=60 if q else 2400),
    ]
