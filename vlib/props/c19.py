"""C19 -- Directly constructed composite shapes equal the ones operators build"""
from __future__ import annotations

import itertools
from fractions import Fraction as F

from hypothesis import assume
from hypothesis import strategies as st

from .. import lib, probes
from .. import opcases as oc
from .. import refgeom as rg
from .. import strategies as S
from ..engine import Part, call_limit, innermost_shapepy_frame

PROPERTY = "C19"
RULE = (
    "Hypothesis draws valid member lists (exactly validated by the reference): an outer region with 1-3 pairwise "
    "disjoint holes, an unbounded connected shape (2-3 clockwise curves), 2-3 pairwise disjoint components (Simple "
    "and Connected, bounded, or an unbounded one with islands), rational/float polygons and curved members, lists "
    "with EmptyShape entries, singleton and empty lists. Oracle: the model region (intersection resp. union of the "
    "members) compared with the constructed object on witness/uniform/near points, area and moments against the "
    "reference integrals, the complement against the model complement, every permutation of the list (<= 4 members) "
    "against the first one (membership, area, ==), and the operator-built shape (outer - holes, union of "
    "components; for families of 3-5 strictly nested curves every ring is operator-built too) with library == in both "
    "directions; ~~X and copy(X) answer and compare like X; collapse rules: DisjointShape([S]) is an equal but "
    "independent copy, DisjointShape([]) and only-Empty lists give the EmptyShape singleton. Non-trivial: >= 3 "
    "members or two members of equal area."
)
MANDATORY = ["connected+", "connected-", "disjoint+", "disjoint-", "permutations", "operator-built", "empty-entries", "collapse", "curved", "equal-areas", "tiny-member", "nested>=4"]


def _members(spec):
    if spec["k"] == "connected":
        return [{"k": "simple", "curve": c} for c in spec["curves"]]
    return list(spec["parts"])


def _construct(spec, members):
    Sp = lib.sp()
    if spec["k"] == "connected":
        return Sp.ConnectedShape([lib.build(m) for m in members])
    return Sp.DisjointShape([lib.build(m) for m in members])


def _ring_by_operators(spec):
    Sp = lib.sp()
    cs = [lib.tup(c) for c in spec["curves"]]
    outer = [c for c in cs if rg.curve_area(c) > 0]
    holes = [c for c in cs if rg.curve_area(c) < 0]
    acc = lib.simple_from_curve(outer[0]) if outer else Sp.WholeShape()
    for h in holes:
        acc = acc - lib.simple_from_curve(rg.curve_reverse(h))
    return acc


def _observe(shape, pts):
    k = lib.kind_of(shape)
    if k in ("empty", "whole"):
        return k, 0.0, [k == "whole"] * len(pts)
    return k, float(shape), [p in shape for p in pts]


def judge(ctx, case):
    Sp = lib.sp()
    spec = case["spec"]
    members = _members(spec)
    curves = lib.spec_curves(spec)
    curved = any(len(s) > 2 for c in curves for s in c)
    region = lib.spec_region(spec)
    kind = lib.spec_kind(spec)
    areas = [float(lib.spec_moment(m)) for m in members]
    equal_areas = len({round(a, 9) for a in areas}) < len(areas)
    strata = [kind] + (["nested>=4"] if case.get("levels", 0) >= 4 else []) + (["curved"] if curved else []) + (["equal-areas"] if equal_areas else []) + (["tiny-member"] if case.get("tiny") else [])
    ctx.evaluated(case, len(members) >= 3 or equal_areas, strata)
    where = ("curved" if curved else "polygon") + ":" + kind
    margin = oc.MARGIN_CURVED if curved else probes.MARGIN
    pts = [p for p, _ in oc.query_points(curves, case["us"], curved, max_witness=40) if region.clear(p, margin)]
    truth = [region.contains(p) for p in pts]
    try:
        with call_limit(300):
            base = _construct(spec, members)
            k0, a0, in0 = _observe(base, pts)
    except BaseException as exc:
        ctx.violation("construct", "raised", case, repr(exc), innermost_shapepy_frame(exc))
        return
    if k0 != spec["k"]:
        ctx.violation("construct", "kind", case, "constructed %s is a %s" % (spec["k"], k0), where)
        return
    if in0 != truth:
        i = [a != b for a, b in zip(in0, truth)].index(True)
        ctx.violation("construct", "membership", case, "point %r: %r, model %r" % (pts[i], in0[i], truth[i]), where)
    ref_area = float(lib.spec_moment(spec))
    size = max(rg.curve_size(c) for c in curves)
    if abs(a0 - ref_area) > 1e-9 * max(abs(ref_area), size * size):
        ctx.violation("construct", "area", case, "float = %r, reference %r" % (a0, ref_area), where)
    try:
        with call_limit(120):
            from .c04 import _abs_scale, _rule_exact

            for (a, b) in ((1, 0), (0, 1), (1, 1)):
                if not all(_rule_exact(len(sg) - 1, a, b) for c in curves for sg in c):
                    continue
                got = float(Sp.IntegrateShape.polynomial(base, a, b))
                ref = float(lib.spec_moment(spec, a, b))
                if abs(got - ref) > 1e-9 * _abs_scale(curves, a, b):
                    ctx.violation("construct", "moment", case, "moment (%d,%d) = %r, reference %r" % (a, b, got, ref), where)
                    break
            inv = ~base
            kinv, ainv, ininv = _observe(inv, pts)
            if ininv != [not t for t in truth]:
                ctx.violation("construct", "complement-membership", case, "~constructed differs from the model complement (kind %s)" % kinv, where)
            if abs(ainv + ref_area) > 1e-9 * max(abs(ref_area), size * size):
                ctx.violation("construct", "complement-area", case, "float(~X) = %r, expected %r" % (ainv, -ref_area), where)
            # the complement of the complement and a copy are the same shape again
            import copy as _copy

            for name, again in (("~~X", ~inv), ("copy(X)", _copy.copy(base))):
                kk, aa, inn = _observe(again, pts)
                if kk != k0 or inn != truth:
                    ctx.violation("construct", "double-complement-or-copy-differs", case, "%s: kind %s, membership %s the model" % (name, kk, "as" if inn == truth else "differs from"), where)
                    break
                if ((again == base), (base == again)) != (True, True):
                    ctx.violation("construct", "double-complement-or-copy-not-equal", case, "%s == X is not True both ways" % name, where)
                    break
    except BaseException as exc:
        ctx.violation("construct", "raised-in-observation", case, repr(exc), innermost_shapepy_frame(exc))
    # ---- permutations -------------------------------------------------------
    if len(members) <= 4:
        perms = list(itertools.permutations(range(len(members))))[1:]
        if len(perms) > 6:
            step = len(perms) // 6
            perms = perms[::step][:6]
        if case.get("levels"):
            perms = perms[:1]  # == on many curves is slow; the permutation parts cover the orders
        ctx.count("stratum:permutations")
        for perm in perms:
            try:
                with call_limit(300):
                    other = _construct(spec, [members[i] for i in perm])
                    k1, a1, in1 = _observe(other, pts)
                    eq = (other == base, base == other)
            except BaseException as exc:
                ctx.violation("permutation", "raised", case, "order %r: %r" % (perm, exc), innermost_shapepy_frame(exc))
                break
            if in1 != in0 or k1 != k0 or abs(a1 - a0) > 1e-9 * max(abs(a0), 1.0):
                ctx.violation("permutation", "answers-depend-on-order", case, "order %r: kind %s area %r vs %s %r" % (perm, k1, a1, k0, a0), where)
                break
            if eq != (True, True):
                ctx.violation("permutation", "not-equal", case, "order %r: == gives %r" % (perm, eq), where)
                break
    # ---- operator-built counterpart ----------------------------------------------
    if case.get("operators"):
        ctx.count("stratum:operator-built")
        try:
            with call_limit(400):
                if spec["k"] == "connected":
                    acc = _ring_by_operators(spec)
                else:
                    acc = Sp.EmptyShape()
                    for m in members:
                        # rings of a nested family are themselves operator-built
                        acc = acc | (_ring_by_operators(m) if m["k"] == "connected" and case.get("levels") else lib.build(m))
                k2, a2, in2 = _observe(acc, pts)
                eq = (acc == base, base == acc)
        except BaseException as exc:
            ctx.violation("operators", "raised", case, repr(exc), innermost_shapepy_frame(exc))
            return
        if k2 != k0 or in2 != truth or abs(a2 - ref_area) > 1e-9 * max(abs(ref_area), size * size):
            ctx.violation("operators", "operator-built-differs-from-model", case, "kind %s area %r (constructed %s %r)" % (k2, a2, k0, a0), where)
        elif eq != (True, True):
            ctx.violation("operators", "constructed-not-equal-to-operator-built", case, "== gives %r" % (eq,), where)


def judge_collapse(ctx, case):
    Sp = lib.sp()
    spec = case["spec"]
    E = Sp.EmptyShape()
    mode = case["mode"]
    ctx.evaluated(case, True, ["collapse", "empty-entries"] if mode != "single" else ["collapse"])
    try:
        with call_limit(240):
            if mode == "empty-list":
                got = Sp.DisjointShape([])
                if got is not E:
                    ctx.violation("collapse", "empty-list-not-Empty", case, repr(got))
                got = Sp.DisjointShape([E, E])
                if got is not E:
                    ctx.violation("collapse", "only-Empty-entries-not-Empty", case, repr(got))
                return
            if mode == "single":
                s = lib.build(spec)
                snap = lib.structural_snapshot(s)
                got = Sp.DisjointShape([s])
                if got is s:
                    ctx.violation("collapse", "single-member-returned-itself", case, "DisjointShape([S]) is S")
                elif (got == s) is not True:
                    ctx.violation("collapse", "single-member-not-equal", case, "DisjointShape([S]) == S is False")
                else:
                    got.move(3, 1)
                    if lib.structural_snapshot(s) != snap:
                        ctx.violation("collapse", "single-member-copy-shares-state", case, "moving the copy moved S")
                return
            # Empty entries are removed
            members = _members(spec)
            pos = case["pos"] % (len(members) + 1)
            objs = [lib.build(m) for m in members]
            with_e = objs[:pos] + [E] + objs[pos:]
            got = Sp.DisjointShape(with_e + ([E] if case["pos"] % 2 else []))
            ref = Sp.DisjointShape([lib.build(m) for m in members])
            if lib.kind_of(got) != lib.kind_of(ref) or (got == ref) is not True:
                ctx.violation("collapse", "Empty-entries-change-the-shape", case, "%s vs %s" % (lib.kind_of(got), lib.kind_of(ref)))
    except BaseException as exc:
        ctx.violation("collapse", "raised", case, repr(exc), innermost_shapepy_frame(exc))


# ------------------------------------------------------------------ strategies
@st.composite
def cases(draw, curved):
    if curved:
        nk, deg = draw(st.sampled_from([("float", (1, 2)), ("float", (2,)), ("float", (1, 2, 3))]))
    else:
        nk, deg = draw(st.sampled_from(S.NUMKINDS)), (1,)
    kind = draw(st.sampled_from(S.KINDS[4:]))
    spec = draw(S.shape_spec(nk, deg, kinds=[kind]))
    return {"spec": spec, "us": draw(st.lists(st.floats(0, 1), min_size=12, max_size=12)), "operators": draw(st.integers(0, 2)) == 0}


@st.composite
def nested_cases(draw):
    """rings inside rings: 3..6 nesting levels, always with the
    operator-built counterpart"""
    curved = draw(st.integers(0, 5)) == 0
    if curved:
        nk, deg = "float", draw(st.sampled_from([(1, 2), (2,)]))
    else:
        nk, deg = draw(st.sampled_from(S.NUMKINDS)), (1,)
    levels = draw(st.sampled_from([3, 4, 4, 4] if curved else [3, 4, 4, 4, 5]))
    spec = draw(S.nested_rings_spec(nk, deg, levels, bounded=draw(st.integers(0, 3)) > 0))
    return {"spec": spec, "us": draw(st.lists(st.floats(0, 1), min_size=12, max_size=12)), "operators": True, "levels": levels}


@st.composite
def equal_area_cases(draw):
    """members of equal area: congruent holes / components (sort order ties)"""
    nk = draw(st.sampled_from(["int", "frac"]))
    R = S.base_radius(nk)
    hole = draw(S.star_curve(nk, (0.0, 0.0), 0.08 * R, 0.15 * R, (3, 5), (1,), True))
    n = draw(st.integers(2, 3))
    layout = draw(st.sampled_from(["triangle", "column", "row", "diagonal"]))
    d = int(0.42 * R)
    offs = {"triangle": [(int(0.35 * R), int(0.3 * R)), (-int(0.35 * R), int(0.3 * R)), (0, -int(0.4 * R))],
            "column": [(0, d), (0, -d), (0, 0)],      # same x extent: ties in every x-based order
            "row": [(d, 0), (-d, 0), (0, 0)],
            "diagonal": [(d, d), (-d, -d), (0, 0)]}[layout][:n]
    tr = lambda c, v: [[(p[0] + v[0], p[1] + v[1]) for p in seg] for seg in c]
    if draw(st.booleans()):
        outer = draw(S.star_curve(nk, (0.0, 0.0), 0.8 * R, R, (4, 8), (1,), False, container=True))
        spec = {"k": "connected", "curves": [outer] + [tr(hole, v) for v in offs]}
    else:
        comp = rg.curve_reverse(hole)
        spec = {"k": "disjoint", "parts": [{"k": "simple", "curve": tr(comp, v)} for v in offs]}
    from hypothesis import assume

    assume(lib.spec_valid(spec))
    return {"spec": spec, "us": draw(st.lists(st.floats(0, 1), min_size=12, max_size=12)), "operators": draw(st.booleans())}


@st.composite
def tiny_member_cases(draw):
    """a valid member whose area is far below 1e-6 (a 0.5 mm pad in a drawing
    in metres): it is a member like any other"""
    nk = draw(st.sampled_from(["int", "frac"]))
    R = S.base_radius(nk)
    e = F(1, draw(st.sampled_from([2000, 5000, 1500])))
    sq = lambda x, y, s: rg.polygon_curve([(x, y), (x + s, y), (x + s, y + s), (x, y + s)])
    if draw(st.booleans()):
        big = draw(S.star_curve(nk, (0.0, 0.0), 0.5 * R, R, (3, 7), (1,), False))
        x0 = int(2 * R) + draw(st.integers(1, 5))
        parts = [{"k": "simple", "curve": big}, {"k": "simple", "curve": sq(x0, draw(st.integers(-5, 5)), e)}]
        if draw(st.booleans()):
            parts.append({"k": "simple", "curve": sq(-x0, draw(st.integers(-5, 5)), e)})
        spec = {"k": "disjoint", "parts": parts}
    else:
        outer = draw(S.star_curve(nk, (0.0, 0.0), 0.8 * R, R, (4, 8), (1,), False, container=True))
        holes = [rg.curve_reverse(sq(draw(st.integers(-3, 0)), draw(st.integers(-3, 0)), e))]
        if draw(st.booleans()):
            holes.append(rg.curve_reverse(sq(draw(st.integers(1, 3)), draw(st.integers(1, 3)), e)))
        spec = {"k": "connected", "curves": [outer] + holes}
    assume(lib.spec_valid(spec, 1e-6))
    return {"spec": spec, "us": draw(st.lists(st.floats(0, 1), min_size=12, max_size=12)), "operators": draw(st.booleans()), "tiny": True}


@st.composite
def collapse_cases(draw):
    mode = draw(st.sampled_from(["empty-list", "single", "single", "entries", "entries"]))
    nk = draw(st.sampled_from(S.NUMKINDS))
    if mode == "entries":
        spec = draw(S.shape_spec(nk, (1,), kinds=["disjoint+", "disjoint-"]))
    else:
        spec = draw(S.shape_spec(nk, (1,), kinds=["simple+", "simple-", "connected+", "connected-"]))
    return {"spec": spec, "mode": mode, "pos": draw(st.integers(0, 5))}


def parts(tier):
    q = tier == "quick"
    return [
        Part("polygons", judge, cases(False), n=500 if q else 20000, budget_s=70 if q else 2400),
        Part("nested-rings", judge, nested_cases(), n=48 if q else 3000, budget_s=90 if q else 1500),
        Part("equal-areas", judge, equal_area_cases(), n=160 if q else 6000, budget_s=50 if q else 1200),
        Part("curved", judge, cases(True), n=32 if q else 800, budget_s=70 if q else 3000, shards=16),
        Part("tiny-members", judge, tiny_member_cases(), n=120 if q else 4000, budget_s=50 if q else 1200),
        Part("collapse", judge_collapse, collapse_cases(), n=200 if q else 4000, budget_s=40 if q else 600),
    ]
