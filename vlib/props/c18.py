"""C18 -- Segment calculus is exact: evaluation, derivative, box, point-on-curve"""
from __future__ import annotations

import math
from fractions import Fraction as F

from hypothesis import strategies as st

from .. import lib
from .. import refgeom as rg
from .. import strategies as S
from ..engine import Part, call_limit, innermost_shapepy_frame

PROPERTY = "C18"
RULE = (
    "Part 'identity' enumerates exhaustively, for every degree p = 1..6, the segments whose x control values are "
    "the unit vectors, evaluated at p+1 distinct rational parameters, and compares evaluation and all derivative "
    "orders with C(p,i) t^i (1-t)^(p-i) and forward differences in exact Fractions (two polynomials of degree <= p "
    "agreeing at p+1 points are identical and evaluation is linear in the control points, so this settles the "
    "memoised matrices of that degree). Part 'random' draws segments of degree 1..6 with control points of every "
    "numeric kind, parameters t (rational and float), split nodes and query points: evaluation vs de Casteljau, "
    "derivatives, split re-parameterisation, box, point-on-curve for regular (x-monotone control polygon) segments, "
    "off-curve points at normal distance >= 2e-6, and the winding contribution vs the reference subtended angle. "
    "Non-trivial: degree >= 3 or t not in {0, 1/2, 1}."
)
MANDATORY = ["deg:1", "deg:2", "deg:3", "deg:4", "deg:5", "deg:6", "on-curve", "off-curve", "winding", "split", "derivative", "in-jordan"]


def _num(x):
    return lib.num(x)


def _pt(p):
    return (_num(p[0]), _num(p[1]))


def _eq(a, b, exact, scale):
    if exact:
        return a[0] == b[0] and a[1] == b[1]
    return abs(float(a[0]) - float(b[0])) <= 1e-11 * scale and abs(float(a[1]) - float(b[1])) <= 1e-11 * scale


def _ref_derivative(ctrl, k):
    out = list(ctrl)
    for _ in range(k):
        if len(out) == 1:
            return [(0, 0)]
        out = rg.bez_deriv(out)
    return out


def judge_identity(ctx, case):
    p, i = case["degree"], case["basis"]
    Sp = lib.sp()
    ctrl = [((1 if k == i else 0), k) for k in range(p + 1)]
    case = dict(case)
    ctx.evaluated(case, True, ["deg:%d" % p, "identity"])
    try:
        seg = Sp.PlanarCurve(ctrl)
        params = [F(j, p + 1) + F(1, 3 * (p + 1)) for j in range(p + 1)]
        params[0] = F(0)
        params[-1] = F(1)
        vals = seg.eval(params)
        for t, v in zip(params, vals):
            want = (rg.bernstein(p, i, t), p * t)
            if _pt(v) != want:
                ctx.violation("identity", "evaluation", case, "deg %d basis %d t=%s: %r != %r" % (p, i, t, _pt(v), want))
                return
            single = seg(t)
            if _pt(single) != want:
                ctx.violation("identity", "scalar-call", case, "deg %d basis %d t=%s: %r != %r" % (p, i, t, _pt(single), want))
                return
        for k in range(1, p + 2):
            dref = _ref_derivative(ctrl, k)
            d = seg.derivate(k)
            got = [_pt(q) for q in d.ctrlpoints]
            # compare as functions at p+1 parameters (representation may differ)
            for t in params:
                a = _pt(d(t))
                b = rg.bez_eval(dref, t)
                if a[0] != b[0] or a[1] != b[1]:
                    ctx.violation("identity", "derivative", case,
                                  "deg %d basis %d order %d t=%s: %r != %r (ctrl %r)" % (p, i, k, t, a, b, got))
                    return
    except BaseException as exc:
        ctx.violation("identity", "raised", case, repr(exc), innermost_shapepy_frame(exc))


def judge_random(ctx, case):
    Sp = lib.sp()
    ctrl = [tuple(p) for p in case["ctrl"]]
    deg = len(ctrl) - 1
    exact = all(rg.is_exact(c) for p in ctrl for c in p)
    scale = max(1.0, max(abs(float(c)) for p in ctrl for c in p))
    strata = ["deg:%d" % deg]
    try:
        seg = Sp.PlanarCurve(ctrl)
    except BaseException as exc:
        ctx.violation("random", "constructor-raised", case, repr(exc), innermost_shapepy_frame(exc))
        return
    ts = case["ts"]
    nontriv = deg >= 3 or any(t not in (0, 1, F(1, 2), 0.5) for t in ts)
    ctx.evaluated(case, nontriv, strata + ["derivative", "split"])
    try:
        with call_limit(120):
            # evaluation
            vals = seg.eval(ts)
            for t, v in zip(ts, vals):
                ex_t = exact and rg.is_exact(t)
                want = rg.bez_eval(ctrl, t)
                if not _eq(_pt(v), want, ex_t, scale):
                    ctx.violation("random", "evaluation", case, "t=%r: %r != %r" % (t, _pt(v), want), "deg%d" % deg)
                    return
                if ex_t and not all(rg.is_exact(c) for c in _pt(v)):
                    ctx.violation("random", "rational-evaluation-became-float", case, repr(_pt(v)))
                    return
                # box contains every point of the curve
                if v not in seg.box():
                    ctx.violation("random", "box-misses-curve-point", case, "t=%r point %r box %s" % (t, _pt(v), seg.box()))
                    return
            # derivatives
            for k in range(1, deg + 1):
                d = seg.derivate(k)
                dref = _ref_derivative(ctrl, k)
                for t in ts[:3]:
                    a, b = _pt(d(t)), rg.bez_eval(dref, t)
                    if not _eq(a, b, exact and rg.is_exact(t), scale * deg**k):
                        ctx.violation("random", "derivative", case, "order %d t=%r: %r != %r" % (k, t, a, b), "deg%d" % deg)
                        return
            # split re-parameterisation
            nodes = sorted(set(case["nodes"]), key=float)
            if nodes:
                pieces = seg.split(nodes)
                knots = [0] + nodes + [1]
                if len(pieces) != len(nodes) + 1:
                    ctx.violation("random", "split-piece-count", case, "%d pieces for %d nodes" % (len(pieces), len(nodes)))
                    return
                for j, piece in enumerate(pieces):
                    t0, t1 = knots[j], knots[j + 1]
                    # stored control points are capped at denominator 1e9:
                    # exact equality only when the exact piece fits
                    ex_s = exact and rg.is_exact(t0) and rg.is_exact(t1)
                    if ex_s:
                        # every intermediate of the subdivision stays below
                        # the cap: coordinate denominators times the node
                        # denominators to the power of the degree
                        dmax = max(F(c).denominator for q in ctrl for c in q)
                        nmax = max(F(n_).denominator for n_ in nodes)
                        ex_s = dmax * nmax ** (2 * deg) <= 10**9
                        if not ex_s:
                            ctx.count("split-denominator-above-1e9")
                    for s in (0, F(1, 3), F(1, 2), 1):
                        a = _pt(piece(s))
                        b = rg.bez_eval(ctrl, t0 + s * (t1 - t0))
                        if not _eq(a, b, ex_s, scale):
                            ctx.violation("random", "split-reparameterisation", case,
                                          "piece %d s=%s: %r != %r" % (j, s, a, b), "deg%d" % deg)
                            return
    except BaseException as exc:
        ctx.violation("random", "raised", case, repr(exc), innermost_shapepy_frame(exc))
        return
    # winding contribution about centres off the curve
    fctrl = [rg.fl(p) for p in ctrl]
    for c in case["centres"]:
        c = (float(c[0]), float(c[1]))
        if not rg.seg_clear(fctrl, c, 1e-5 * scale):
            ctx.count("undecided")
            continue
        sub = dict(ctrl=case["ctrl"], centre=list(c))
        ctx.evaluated(sub, True, strata + ["winding"])
        want = rg.seg_angle(fctrl, c) / rg.TAU
        if abs(abs(want) - 0.5) < 1e-9:
            # half turn to rounding: the sign is not decidable in floats
            ctx.count("undecided")
            continue
        try:
            with call_limit(60):
                got = float(Sp.IntegratePlanar.winding_number(seg, c))
        except BaseException as exc:
            ctx.violation("random", "winding-raised", sub, repr(exc), innermost_shapepy_frame(exc))
            continue
        if abs(got - want) > 1e-9:
            ctx.violation("random", "winding-contribution", sub, "centre %r: %r, subtended angle/tau %r" % (c, got, want), "deg%d" % deg)


def zigzag(case) -> bool:
    """degree >= 3 and the control polygon (x strictly increasing) is not
    convex/concave: its slopes are not monotone.  Projection by Newton from
    degree+2 starts is then not guaranteed to reach the nearest point
    (calibration: 17 misses in 25 200 queries on such cubics, none in
    50 000 on convex control polygons of degree 2..6)."""
    ctrl = case["ctrl"]
    if len(ctrl) - 1 < 3:
        return False
    slopes = []
    for a, b in zip(ctrl[:-1], ctrl[1:]):
        dx = F(b[0]) - F(a[0]) if rg.is_exact(b[0]) and rg.is_exact(a[0]) else float(b[0]) - float(a[0])
        if dx <= 0:
            return True
        slopes.append((float(b[1]) - float(a[1])) / float(dx))
    inc = all(s1 <= s2 for s1, s2 in zip(slopes[:-1], slopes[1:]))
    dec = all(s1 >= s2 for s1, s2 in zip(slopes[:-1], slopes[1:]))
    return not (inc or dec)


KNOWN_CLASSES = {"zigzag-control-polygon-degree>=3": zigzag}


def judge_oncurve(ctx, case):
    """regular segments (strictly x-monotone control polygon)"""
    Sp = lib.sp()
    ctrl = [tuple(p) for p in case["ctrl"]]
    deg = len(ctrl) - 1
    if ctx.known_class(case, KNOWN_CLASSES):
        return
    fctrl = [rg.fl(p) for p in ctrl]
    try:
        seg = Sp.PlanarCurve(ctrl)
    except BaseException as exc:
        ctx.violation("oncurve", "constructor-raised", case, repr(exc), innermost_shapepy_frame(exc))
        return
    for t in case["ts"]:
        sub = dict(ctrl=case["ctrl"], ts=[t])
        ctx.evaluated(sub, deg >= 3 or t not in (0, 1, 0.5, F(1, 2)), ["deg:%d" % deg, "on-curve"])
        try:
            with call_limit(120):
                p = seg(t)
                p2 = (float(p[0]), float(p[1]))
                ok2 = p2 in seg
                ok = p in seg
        except BaseException as exc:
            ctx.violation("oncurve", "raised", sub, repr(exc), innermost_shapepy_frame(exc))
            continue
        if not (ok and ok2):
            ctx.violation("oncurve", "curve-point-not-in-segment", sub, "t=%r point %r: in=%r (as floats %r)" % (t, _pt(p), ok, ok2), "deg%d" % deg)
    d = rg.bez_deriv(fctrl)
    for t, off in zip(case["ts"], case.get("offsets", [])):  # (a replayed on-curve sub-case has no offsets)
        tf = float(t)
        b = rg.bez_eval(fctrl, tf)
        dv = rg.bez_eval(d, tf)
        n = math.hypot(*dv)
        if n == 0:
            continue
        q = (b[0] + off * dv[1] / n, b[1] - off * dv[0] / n)
        if not rg.seg_clear(fctrl, q, 1.5e-6):
            ctx.count("undecided")
            continue
        sub = dict(ctrl=case["ctrl"], ts=[t], offsets=[off])
        ctx.evaluated(sub, True, ["deg:%d" % deg, "off-curve"])
        try:
            with call_limit(120):
                got = q in seg
        except BaseException as exc:
            ctx.violation("oncurve", "raised", sub, repr(exc), innermost_shapepy_frame(exc))
            continue
        if got:
            ctx.violation("oncurve", "off-curve-point-in-segment", sub, "point %r at normal offset %r reported on the curve" % (q, off), "deg%d" % deg)


def judge_injordan(ctx, case):
    """segment calculus on the segments of a closed curve before and after the
    curve is moved / scaled / rotated in place (the segments share their
    Point2D objects with the curve; nothing evaluated earlier may survive)"""
    from .c09 import apply_step, model_step

    curve = lib.tup(case["curve"])
    deg = max(len(sg) - 1 for sg in curve)
    ctx.evaluated(case, True, ["in-jordan", "deg:%d" % min(deg, 6)])
    try:
        with call_limit(120):
            J = lib.jordan_from_curve(curve)
            segs = list(J.segments)
            for sg in segs:           # warm
                sg(F(1, 3))
                sg.derivate(1)(F(1, 3))
                sg.box()
                _ = sg(F(1, 2)) in sg
            model = [curve]
            for step in case["steps"]:
                apply_step(J, step)
                model = model_step(model, step)
            mc = model[0]
            size = max(1.0, max(abs(float(v)) for sg in mc for p in sg for v in p))
            for sg, ref in zip(list(J.segments), mc):
                for t in case["ts"]:
                    a, w = sg(t), rg.bez_eval(ref, t)
                    if rg.dist(a, w) > 1e-9 * size:
                        ctx.violation("injordan", "evaluation-after-transform", case, "t=%r: %r, model %r after %r" % (t, rg.fl(a), rg.fl(w), case["steps"]))
                        return
                    d, dw = sg.derivate(1)(t), rg.bez_eval(rg.bez_deriv(ref), t)
                    if rg.dist(d, dw) > 1e-8 * size * max(1, len(ref)):
                        ctx.violation("injordan", "derivative-after-transform", case, "t=%r: %r, model %r" % (t, rg.fl(d), rg.fl(dw)))
                        return
                    if a not in sg.box():
                        ctx.violation("injordan", "box-after-transform", case, "t=%r point %r box %s" % (t, rg.fl(a), sg.box()))
                        return
                fa = (float(a[0]), float(a[1]))
                if len(ref) <= 3 and not (fa in sg):
                    ctx.violation("injordan", "curve-point-not-in-segment-after-transform", case, "point %r" % (fa,))
                    return
    except BaseException as exc:
        ctx.violation("injordan", "raised", case, repr(exc), innermost_shapepy_frame(exc))


# ------------------------------------------------------------------ strategies
@st.composite
def ctrl_points(draw, monotone=False):
    deg = draw(st.integers(1, 6))
    kind = draw(st.sampled_from(["int", "frac", "float", "mixed"]))
    num = {"int": st.integers(-30, 30), "frac": S.rational_numbers(30), "float": S.float_numbers(30.0),
           "mixed": S.any_numbers(30)}[kind]
    pts = []
    x = draw(num)
    for k in range(deg + 1):
        y = draw(num)
        if monotone:
            pts.append((x, y))
            step = draw(st.integers(1, 8))
            x = x + (step if kind != "float" else float(step))
        else:
            pts.append((draw(num), y))
    return pts


def _params():
    return st.one_of(
        st.builds(lambda n, d: F(min(n, d), d), st.integers(0, 64), st.sampled_from([1, 2, 3, 5, 7, 16, 64])),
        st.floats(0.0, 1.0),
    )


@st.composite
def random_cases(draw):
    ctrl = draw(ctrl_points())
    assume_distinct = len({(float(p[0]), float(p[1])) for p in ctrl}) > 1
    if not assume_distinct:
        ctrl[-1] = (ctrl[-1][0] + 1, ctrl[-1][1])
    ts = draw(st.lists(_params(), min_size=3, max_size=6))
    nodes = draw(st.lists(st.builds(lambda n, d: F(n % d or 1, d), st.integers(1, 31), st.sampled_from([2, 3, 4, 8, 32])),
                         min_size=0, max_size=3))
    cen = st.tuples(st.floats(-40, 40), st.floats(-40, 40))
    centres = draw(st.lists(cen, min_size=2, max_size=4))
    # one centre inside the control hull: convex combination of control points
    w = draw(st.lists(st.floats(0.05, 1.0), min_size=len(ctrl), max_size=len(ctrl)))
    sw = sum(w)
    centres.append((sum(float(p[0]) * wi for p, wi in zip(ctrl, w)) / sw, sum(float(p[1]) * wi for p, wi in zip(ctrl, w)) / sw))
    return {"ctrl": ctrl, "ts": ts, "nodes": nodes, "centres": [list(c) for c in centres]}


@st.composite
def convex_ctrl(draw):
    """x strictly increasing, slopes monotone: a regular segment whose
    control polygon turns less than pi in one direction"""
    deg = draw(st.integers(2, 6))
    kind = draw(st.sampled_from(["int", "frac", "float"]))
    sign = draw(st.sampled_from([1, -1]))
    x = draw(st.integers(-30, 30))
    y = F(draw(st.integers(-30, 30)))
    slope = F(draw(st.integers(-16, 16)), 4)
    pts = [(x, y)]
    for _ in range(deg):
        dx = draw(st.integers(1, 8))
        y = y + slope * dx
        x = x + dx
        pts.append((x, y))
        slope = slope + sign * F(draw(st.integers(1, 12)), 4)
    if kind == "float":
        return [(float(p[0]), float(p[1])) for p in pts]
    if kind == "int":
        return [(int(p[0]) * 4, int(p[1] * 4)) for p in pts]
    return [(F(p[0]), p[1]) for p in pts]


@st.composite
def oncurve_cases(draw):
    ctrl = draw(st.one_of(ctrl_points(monotone=True), convex_ctrl(), convex_ctrl()))
    ts = draw(st.lists(_params(), min_size=3, max_size=5))
    offs = draw(st.lists(st.sampled_from([2e-6, -2e-6, 1e-5, -1e-5, 1e-3, -1e-3, 1.0, -1.0]), min_size=len(ts), max_size=len(ts)))
    return {"ctrl": ctrl, "ts": ts, "offsets": offs}


@st.composite
def injordan_cases(draw):
    from .c09 import step

    nk, deg = draw(st.sampled_from([("int", (1,)), ("frac", (1, 2)), ("float", (1, 2, 3)), ("float", (2,)), ("float", (3,)), ("frac", (1, 2, 3))]))
    R = S.base_radius(nk)
    curve = draw(S.simple_curve(nk, deg, (0.0, 0.0), 0.45 * R, R, draw(st.booleans()), templates=False))
    steps = draw(st.lists(step(False), min_size=1, max_size=3))
    ts = draw(st.lists(_params(), min_size=2, max_size=3))
    return {"curve": curve, "steps": steps, "ts": ts}


def _identity_cases():
    return [dict(degree=p, basis=i) for p in range(1, 7) for i in range(p + 1)]


def parts(tier):
    q = tier == "quick"
    return [
        Part("identity", judge_identity, cases=_identity_cases, exhaustive=True, shards=4),
        Part("random", judge_random, random_cases(), n=3000 if q else 60000, budget_s=70 if q else 1500),
        Part("oncurve", judge_oncurve, oncurve_cases(), n=1500 if q else 30000, budget_s=70 if q else 1500),
        Part("in-jordan", judge_injordan, injordan_cases(), n=600 if q else 12000, budget_s=60 if q else 1200),
    ]
