"""C10 -- Answers depend only on the current geometry, not on earlier calls"""
from __future__ import annotations

import copy as _copy
import hashlib
import json
import os
import subprocess
import sys
from fractions import Fraction as F

from hypothesis import strategies as st

from .. import lib
from .. import opcases as oc
from .. import refgeom as rg
from .. import strategies as S
from ..engine import Part, call_limit, innermost_shapepy_frame, enc, dec

PROPERTY = "C10"
RULE = (
    "Hypothesis draws histories (lists of 3-14 steps, shrunk as one value) over a bundle of 2-3 shapes: in-place "
    "move/scale/rotate, binary operators between bundle members (the result joins the bundle; operands get split "
    "in place and are reused), unary ~, queries (area, signed lengths, box, containment, ==), clean/split of a "
    "boundary. After every step the objects touched by it are compared with (a) deepcopy(obj) and (b) an object "
    "rebuilt from nothing but the live object's current control points: area, signed length of every boundary, "
    "bounding box, membership on probe points, == against a third shape, kind/area/membership of an operator with "
    "a third shape; exact for rational data, 1e-9 otherwise; asking twice gives the identical value. Part "
    "'process' executes generated histories in fresh interpreters with PYTHONHASHSEED 0, 1, 2 (cold caches) and in "
    "one interpreter after warming the module-level memo tables with degrees 1..6, and compares a canonical digest "
    "of every answer byte for byte. Parts 'repeat': two operands in general position go, as the same two objects, "
    "through 2-4 operators / containment questions (each operator splits both boundaries in place); every answer "
    "(kind, area, membership on witness points) is compared with the answer of operands built afresh for that one "
    "question (which is itself checked against the model region; when it is wrong or raises the case is counted, "
    "that is C01's business). Non-trivial: an operator whose operand was already split by an earlier "
    "operator, or a query after scale/rotate."
)
MANDATORY = ["repeat:crossing", "repeat:curved", "reused-split-operand", "query-after-scale-or-rotate", "transform", "binop", "process", "kind:connected", "kind:disjoint"]


def rebuild(obj):
    """a new object made from the control points of `obj` only"""
    Sp = lib.sp()
    k = lib.kind_of(obj)
    if k in ("empty", "whole"):
        return obj
    if k == "simple":
        return Sp.SimpleShape(Sp.JordanCurve.from_ctrlpoints(lib.read_jordan(obj.jordans[0])))
    if k == "connected":
        return Sp.ConnectedShape([rebuild(s) for s in obj.subshapes])
    return Sp.DisjointShape([rebuild(s) for s in obj.subshapes])


def third_shape(exact=True):
    # denominators 9973 / 7919 (primes): no vertex or edge of a generated
    # shape (lattice denominators 1..1000, moved by small rationals) can
    # touch it exactly, so the operator never meets a contact configuration
    P = lambda a, b: (F(a, 9973), F(b, 7919))
    pts = [P(-69811, -71271), P(129649, -47514), P(159568, 87109), P(-29919, 110866), P(-109703, 23757)]
    if not exact:
        pts = [(float(a), float(b)) for a, b in pts]
    return lib.sp().Primitive.polygon(pts)


def answers(obj, probes_, exact, heavy=True):
    """canonical tuple of everything a caller can ask; with heavy=True also
    an operator with a third shape (which may re-split obj's boundary)"""
    Sp = lib.sp()
    k = lib.kind_of(obj)
    if k in ("empty", "whole"):
        return (k,)
    out = [k]
    area = float(obj) if not exact else Sp.IntegrateShape.area(obj)
    out.append(("area", area))
    out.append(("lengths", tuple(sorted(float(j) for j in obj.jordans))))
    out.append(("moments", Sp.IntegrateShape.polynomial(obj, 1, 0), Sp.IntegrateShape.polynomial(obj, 0, 1)))
    b = obj.box()
    out.append(("box", (b.lowpt[0], b.lowpt[1], b.toppt[0], b.toppt[1])))
    out.append(("in", tuple(p in obj for p in probes_)))
    if not heavy:
        return tuple(out)
    t = third_shape(exact)
    out.append(("eq", obj == t, obj == obj))
    out.append(("contains", t in obj, obj in t))
    r = obj & third_shape(exact)
    rk = lib.kind_of(r)
    out.append(("and", rk, None if rk in ("empty", "whole") else float(r), tuple((p in r) if rk not in ("empty", "whole") else rk == "whole" for p in probes_)))
    return tuple(out)


def same(a, b, exact, tol=1e-9):
    if type(a) is tuple and type(b) is tuple:
        return len(a) == len(b) and all(same(x, y, exact, tol) for x, y in zip(a, b))
    if isinstance(a, (bool, str)) or a is None or isinstance(b, (bool, str)) or b is None:
        return a == b and type(a) is type(b)
    if exact:
        return a == b
    return abs(float(a) - float(b)) <= tol * max(1.0, abs(float(a)), abs(float(b)))


def run_history(specs, steps, check):
    """execute the history on library objects; `check(i, obj, step_index)`
    is called for every object touched by a step.  Returns the bundle."""
    Sp = lib.sp()
    bundle = [lib.build(s) for s in specs]
    split_by_op = set()
    flags = {"reused": False, "after_tf": False, "last_tf": set()}
    for n, st_ in enumerate(steps):
        k = st_["k"]
        i = st_["i"] % len(bundle)
        obj = bundle[i]
        defined = lib.kind_of(obj) not in ("empty", "whole")
        touched = []
        if k in ("move", "scale", "rotate"):
            if not defined:
                continue
            if k == "move":
                obj.move(st_["v"][0], st_["v"][1])
            elif k == "scale":
                obj.scale(st_["s"][0], st_["s"][1])
                flags["last_tf"].add(i)
            else:
                obj.rotate(st_["a"], degrees=bool(st_.get("deg")))
                flags["last_tf"].add(i)
            touched = [i]
        elif k == "binop":
            j = st_["j"] % len(bundle)
            if j == i:
                j = (i + 1) % len(bundle)
            if i in split_by_op or j in split_by_op:
                flags["reused"] = True
            r = oc.apply_op(st_["op"], obj, bundle[j])
            split_by_op.update((i, j))
            bundle.append(r)
            touched = [i, j, len(bundle) - 1]
        elif k == "not":
            bundle.append(~obj)
            touched = [i, len(bundle) - 1]
        elif k == "query":
            if i in flags["last_tf"]:
                flags["after_tf"] = True
            touched = [i]
        elif k == "clean":
            if defined:
                for jd in obj.jordans:
                    jd.clean()
            touched = [i]
        elif k == "split":
            if defined:
                jd = obj.jordans[st_["c"] % len(obj.jordans)]
                jd.split([st_["seg"] % len(jd.segments)], [st_["t"]])
            touched = [i]
        for t in touched:
            check(t, bundle[t], n)
    return bundle, flags


def judge(ctx, case):
    specs, steps = case["specs"], case["steps"]
    curves = [c for s in specs for c in lib.spec_curves(s)]
    rational = all(rg.curve_is_exact(c) and rg.curve_is_polygon(c) for c in curves)
    float_steps = any(st_["k"] == "rotate" or any(not rg.is_exact(v) for v in st_.get("v", []) + st_.get("s", []) + [st_.get("t", 0)]) for st_ in steps)
    exact = rational and not float_steps
    # contact between bundle members is the open operator finding: skip such histories
    for a in range(len(specs)):
        for b in range(a + 1, len(specs)):
            ca, cb = lib.spec_curves(specs[a]), lib.spec_curves(specs[b])
            if ca and cb and oc.classify_pair(ca, cb)[0] in ("contact", "ill"):
                ctx.count("skipped-contact-or-ill")
                return
    probes_ = [(-5.5, 2.25), (3.125, 7.5), (11.0, -3.0), (0.375, 0.625), (20.5, 14.25), (-13.0, -6.5)]
    if not exact:
        probes_ = [(float(x), float(y)) for x, y in probes_]
    problems = []

    def check(t, obj, n, heavy=False):
        if problems:
            return
        with call_limit(300):
            # light questions twice in a row: identical answers
            l1 = answers(obj, probes_, exact, False)
            l2 = answers(obj, probes_, exact, False)
            twin_b = rebuild(obj)
            twin_a = _copy.deepcopy(obj) if (heavy or n % 3 == 0) else None
            tb = answers(twin_b, probes_, exact, False)
            ta = answers(twin_a, probes_, exact, False) if twin_a is not None else l1
            if heavy:
                # an operator with a third shape, on the live object and on
                # the twins (each gets re-split the same way)
                h, hb = answers(obj, probes_, exact, True), answers(twin_b, probes_, exact, True)
                ha = answers(twin_a, probes_, exact, True)
            else:
                h = hb = ha = None
        if not same(l1, l2, True):
            problems.append(("asking-twice-differs", "object %d after step %d: %r vs %r" % (t, n, l1, l2)))
        elif not same(l1, ta, exact) or (heavy and not same(h, ha, exact)):
            problems.append(("live-differs-from-deepcopy", "object %d after step %d (%r): live %r / %r, deepcopy %r / %r" % (t, n, steps[n], l1, h, ta, ha)))
        elif not same(l1, tb, exact) or (heavy and not same(h, hb, exact)):
            problems.append(("live-differs-from-rebuilt", "object %d after step %d (%r): live %r / %r, rebuilt %r / %r" % (t, n, steps[n], l1, h, tb, hb)))

    try:
        bundle, flags = run_history(specs, steps, check)
        for t, obj in enumerate(bundle):
            check(t, obj, len(steps) - 1, heavy=True)
    except BaseException as exc:
        # an operation of the history raised: results of operators share
        # boundary pieces with their operands, so later operators meet the
        # contact configurations of the open operator finding (C01), and
        # clean() may hit the pynurbs overflow (C15).  Whether a call raises is
        # decided by those properties; here it only ends the history.
        ctx.count("history-ended-by-exception:" + innermost_shapepy_frame(exc))
        return
    strata = ["kind:" + s["k"] for s in specs]
    if flags["reused"]:
        strata.append("reused-split-operand")
    if flags["after_tf"]:
        strata.append("query-after-scale-or-rotate")
    if any(s["k"] in ("move", "scale", "rotate") for s in steps):
        strata.append("transform")
    if any(s["k"] == "binop" for s in steps):
        strata.append("binop")
    ctx.evaluated(case, flags["reused"] or flags["after_tf"], strata)
    for kind, detail in problems[:1]:
        ctx.violation("history", kind, case, detail[:1500], "exact" if exact else "float")


# ------------------------------------------- several operators, same operands
def judge_repeat(ctx, case):
    """A and B go through several operators and containment questions as the
    same two objects (every operator splits both boundaries in place at the
    crossing points); each answer is compared with the answer of operands
    built afresh for that one question, and with the model region."""
    from .. import probes as _pr

    a, b, ops = case["a"], case["b"], case["ops"]
    ca, cb = lib.spec_curves(a), lib.spec_curves(b)
    if not ca or not cb:
        ctx.count("skipped-singleton")
        return
    cls, ncross = oc.classify_pair(ca, cb)
    if cls != "general":
        ctx.count("skipped-" + cls)
        return
    curved = any(len(sg) > 2 for c in ca + cb for sg in c)
    rational = all(rg.curve_is_exact(c) for c in ca + cb) and not curved
    margin = oc.MARGIN_CURVED if curved else _pr.MARGIN
    ra, rb = lib.spec_region(a), lib.spec_region(b)
    pts = [q for q, _ in oc.query_points(ca + cb, case["us"], curved, max_witness=40) if ra.clear(q, margin) and rb.clear(q, margin)]
    size = max(rg.curve_size(c) for c in ca + cb)
    strata = ["repeat", "repeat:crossing" if ncross else "repeat:no-crossing"] + (["repeat:curved"] if curved else [])
    ctx.evaluated(case, ncross > 0 and len(ops) >= 2, strata)

    def ask(A, B, st_):
        op = st_["op"]
        X, Y = (B, A) if st_.get("swap") else (A, B)
        if op == "in":
            return ("in", X in Y)
        if op == "~":
            X = ~X
            op = "&"
        R = oc.apply_op(op, X, Y)
        k = lib.kind_of(R)
        if k in ("empty", "whole"):
            return (k, 0.0, tuple([k == "whole"] * len(pts)))
        return (k, float(R), tuple(q in R for q in pts))

    def truth(st_):
        op = st_["op"]
        X, Y = (rb, ra) if st_.get("swap") else (ra, rb)
        if op == "in":
            return None
        if op == "~":
            X, op = ~X, "&"
        M = oc.model_op(op, X, Y)
        return tuple(M.contains(q) for q in pts)

    try:
        with call_limit(120):
            A, B = lib.build(a), lib.build(b)
    except BaseException as exc:
        ctx.count("construction-raised:" + innermost_shapepy_frame(exc))
        return
    for n, st_ in enumerate(ops):
        if st_["op"] == "^" and not rational:
            continue  # open finding of C01 (xor on float/curved operands)
        try:
            with call_limit(300):
                fresh = ask(lib.build(a), lib.build(b), st_)
        except BaseException as exc:
            ctx.count("fresh-operands-raised:" + innermost_shapepy_frame(exc))  # C01's business
            return
        tr = truth(st_)
        if tr is not None and fresh[2] != tr:
            ctx.count("fresh-operands-wrong-region")  # C01's business
            return
        if st_["op"] != "in" and one_sided_split(A, B, size, rational):
            # contact configuration produced by the history itself: open
            # finding (class decided from the live operands, see DESIGN)
            ctx.count("one-sided-split-before-operator")
            if ctx.known_class(case, KNOWN_CLASSES):
                return
        try:
            with call_limit(300):
                live = ask(A, B, st_)
        except BaseException as exc:
            ctx.violation("repeat", "raises-only-after-earlier-operators", case,
                          "step %d %r: %r (fresh operands answer)" % (n, st_, exc), ("curved" if curved else "polygon") + ":" + st_["op"])
            return
        ok = live[0] == fresh[0] and (live[1] == fresh[1] if st_["op"] == "in" else
                                      (abs(live[1] - fresh[1]) <= 1e-9 * size * size + (2.5e-4 * size * size if curved else 0.0) and live[2] == fresh[2]))
        if not ok:
            bad = ""
            if st_["op"] != "in" and live[2] != fresh[2]:
                i = [x != y for x, y in zip(live[2], fresh[2])].index(True)
                bad = " point %r: %r, fresh %r" % (pts[i], live[2][i], fresh[2][i])
            ctx.violation("repeat", "answer-depends-on-earlier-operators", case,
                          "step %d %r after %r: %r/%r, fresh operands %r/%r%s" % (n, st_, ops[:n], live[0], live[1], fresh[0], fresh[1], bad),
                          ("curved" if curved else "polygon") + ":" + st_["op"])
            return


def _on_segment_exact(p, a, b):
    d, w = rg.sub(b, a), rg.sub(p, a)
    if rg.cross(d, w) != 0:
        return False
    t = d[0] * w[0] + d[1] * w[1]
    return 0 <= t <= d[0] * d[0] + d[1] * d[1]


def one_sided_split(A, B, size, rational):
    """the current control points of A and B are in the contact configuration
    of the open operator finding: a vertex of one lies on the boundary of the
    other without being a vertex of it (an earlier `-` or `~` split this
    operand against a *copy* of the other one).  Crossing points that are
    vertices of both operands are the library's normal form and not meant."""
    tol = 0 if rational else 1e-7 * size
    ca = lib.read_curves(A) if lib.kind_of(A) not in ("empty", "whole") else []
    cb = lib.read_curves(B) if lib.kind_of(B) not in ("empty", "whole") else []
    for X, Y in ((ca, cb), (cb, ca)):
        yv = [sg[0] for c in Y for sg in c]
        for c in X:
            for sg in c:
                v = sg[0]
                if any(abs(float(v[0]) - float(w[0])) <= 1e-8 * size and abs(float(v[1]) - float(w[1])) <= 1e-8 * size for w in yv):
                    continue
                for cy in Y:
                    if rational and rg.curve_is_polygon(cy):
                        on = any(_on_segment_exact(rg.exp(v), rg.exp(e[0]), rg.exp(e[1])) for e in cy)
                    else:
                        on = not rg.curve_clear(cy, rg.fl(v), max(tol, 1e-7 * size))
                    if on:
                        return True
    return False


KNOWN_CLASSES = {"operand-split-against-a-copy-of-the-other": lambda case: True}


@st.composite
def repeat_cases(draw, curved=False):
    pair = draw(oc.operand_pair(curved=curved, kinds=S.KINDS[2:]))
    pair.pop("pre_a", None)
    pair.pop("pre_b", None)
    n = draw(st.integers(2, 4 if not curved else 3))
    ops = [{"op": draw(st.sampled_from(["&", "|", "-", "-", "^", "in", "~"])), "swap": draw(st.booleans())} for _ in range(n)]
    return {"a": pair["a"], "b": pair["b"], "us": pair["us"], "ops": ops}


# ------------------------------------------------------------------ processes
_RUNNER = r'''
import sys, json, hashlib
sys.path.insert(0, sys.argv[1]); sys.path.insert(0, sys.argv[2])
from vlib.engine import dec
from vlib.props import c10
from vlib import lib
data = dec(json.load(sys.stdin))
if data.get("warm"):
    import shapepy
    for d in range(1, 7):
        seg = shapepy.PlanarCurve([(k, (k * k) % 5) for k in range(d + 1)])
        seg(0.3); seg.derivate(1); seg.split([0.5])
        for piece in seg.split([0.25, 0.5]):
            piece.clean()
out = []
probes_ = [(-5.5, 2.25), (3.125, 7.5), (11.0, -3.0), (0.375, 0.625)]
def check(t, obj, n):
    out.append((t, n, repr(c10.answers(obj, probes_, False))))
try:
    c10.run_history(data["specs"], data["steps"], check)
except BaseException as exc:
    out.append(("raised", type(exc).__name__))
print(hashlib.sha1(repr(out).encode()).hexdigest(), len(out))
'''


def judge_process(ctx, case):
    src = os.environ.get("SHAPEPY_SRC", "/repo/src")
    verif = os.path.dirname(os.path.dirname(os.path.dirname(os.path.abspath(__file__))))
    digests = {}
    ctx.evaluated(case, True, ["process"])
    for label, hs, warm in (("seed0", "0", False), ("seed1", "1", False), ("seed2", "2", False), ("warm", "0", True)):
        env = dict(os.environ, PYTHONHASHSEED=hs, PYTHONWARNINGS="ignore", MPLBACKEND="Agg")
        payload = json.dumps(enc(dict(case, warm=warm)))
        try:
            res = subprocess.run([sys.executable, "-c", _RUNNER, verif, src], input=payload, capture_output=True, text=True, timeout=600, env=env)
        except subprocess.TimeoutExpired:
            ctx.count("process-timeout")
            return
        if res.returncode != 0:
            ctx.violation("process", "runner-failed", case, res.stderr[-800:])
            return
        digests[label] = res.stdout.strip()
    if len(set(digests.values())) != 1:
        ctx.violation("process", "answers-depend-on-process-state", case, repr(digests))


# ------------------------------------------------------------------ strategies
@st.composite
def history(draw, curved=False, maxlen=14):
    if curved:
        nk, deg = draw(st.sampled_from([("float", (1, 2)), ("float", (2,)), ("float", (1, 2, 3))]))
        kinds = ["simple+", "simple+", "simple-"]
    else:
        nk, deg = draw(st.sampled_from(["int", "frac", "float", "mixed"])), (1,)
        kinds = ["simple+", "simple+", "simple-", "connected+", "disjoint+", "connected-"]
    R = 10.0
    n = draw(st.integers(2, 3))
    specs = []
    for i in range(n):
        off = (round(draw(st.floats(-0.8, 0.8)) * R), round(draw(st.floats(-0.8, 0.8)) * R))
        # shifted lattices per member so that contact is unlikely
        snapnk = nk if nk != "int" else "frac"
        specs.append(draw(S.shape_spec(snapnk if i else nk, deg, center=(off[0] + 0.37 * i, off[1] + 0.21 * i),
                                       R=R * draw(st.sampled_from([0.7, 1.0, 1.3])), kinds=kinds)))
    steps = []
    L = draw(st.integers(3, maxlen if not curved else 6))
    for _ in range(L):
        k = draw(st.sampled_from(["binop", "binop", "binop", "move", "scale", "rotate", "query", "query", "not", "clean", "split"]))
        st_ = {"k": k, "i": draw(st.integers(0, 7))}
        if k == "binop":
            st_["j"] = draw(st.integers(0, 7))
            st_["op"] = draw(st.sampled_from(["-", "&", "|"] if nk != "int" else ["-", "&", "|", "^"]))
        elif k == "move":
            st_["v"] = [draw(st.integers(-3, 3)), draw(st.sampled_from([F(1, 2), 1, -2, F(-3, 4)]))]
        elif k == "scale":
            st_["s"] = [draw(st.sampled_from([2, F(1, 2), 3, F(3, 2)]))] * 2
        elif k == "rotate":
            st_["a"] = draw(st.sampled_from([90, 30, 17.5, -45]))
            st_["deg"] = True
        elif k == "split":
            st_.update(c=draw(st.integers(0, 3)), seg=draw(st.integers(0, 9)), t=draw(st.sampled_from([F(1, 2), F(1, 3), 0.25])))
        steps.append(st_)
    return {"specs": specs, "steps": steps}


def parts(tier):
    q = tier == "quick"
    return [
        Part("histories", judge, history(False, maxlen=10), n=260 if q else 8000, budget_s=80 if q else 3000),
        Part("histories-curved", judge, history(True), n=24 if q else 400, budget_s=70 if q else 3000, shards=12),
        Part("repeat", judge_repeat, repeat_cases(False), n=400 if q else 12000, budget_s=60 if q else 2400),
        Part("repeat-curved", judge_repeat, repeat_cases(True), n=32 if q else 600, budget_s=60 if q else 2400, shards=16),
        Part("process", judge_process, history(False, maxlen=6), n=8 if q else 60, budget_s=60 if q else 1500, shards=4),
    ]
