"""C10 -- Answers depend only on the current geometry, not on earlier calls"""
from __future__ import annotations

import copy as _copy
import hashlib
import json
import os
import subprocess
import sys
from fractions import Fraction as F

from hypothesis import strategies as st

from .. import lib
from .. import opcases as oc
from .. import refgeom as rg
from .. import strategies as S
from ..engine import Part, call_limit, innermost_shapepy_frame, enc, dec

PROPERTY = "C10"
RULE = (
    "Hypothesis draws histories (lists of 3-14 steps, shrunk as one value) over a bundle of 2-3 shapes: in-place "
    "move/scale/rotate, binary operators between bundle members (the result joins the bundle; operands get split "
    "in place and are reused), unary ~, queries (area, signed lengths, box, containment, ==), clean/split of a "
    "boundary. After every step the objects touched by it are compared with (a) deepcopy(obj) and (b) an object "
    "rebuilt from nothing but the live object's current control points: area, signed length of every boundary, "
    "bounding box, membership on probe points, == against a third shape, kind/area/membership of an operator with "
    "a third shape; exact for rational data, 1e-9 otherwise; asking twice gives the identical value. Part "
    "'process' executes generated histories in fresh interpreters with PYTHONHASHSEED 0, 1, 2 (cold caches) and in "
    "one interpreter after warming the module-level memo tables with degrees 1..6, and compares a canonical digest "
    "of every answer byte for byte. Non-trivial: an operator whose operand was already split by an earlier "
    "operator, or a query after scale/rotate."
)
MANDATORY = ["reused-split-operand", "query-after-scale-or-rotate", "transform", "binop", "process", "kind:connected", "kind:disjoint"]


def rebuild(obj):
    """a new object made from the control points of `obj` only"""
    Sp = lib.sp()
    k = lib.kind_of(obj)
    if k in ("empty", "whole"):
        return obj
    if k == "simple":
        return Sp.SimpleShape(Sp.JordanCurve.from_ctrlpoints(lib.read_jordan(obj.jordans[0])))
    if k == "connected":
        return Sp.ConnectedShape([rebuild(s) for s in obj.subshapes])
    return Sp.DisjointShape([rebuild(s) for s in obj.subshapes])


def third_shape(exact=True):
    # denominators 9973 / 7919 (primes): no vertex or edge of a generated
    # shape (lattice denominators 1..1000, moved by small rationals) can
    # touch it exactly, so the operator never meets a contact configuration
    P = lambda a, b: (F(a, 9973), F(b, 7919))
    pts = [P(-69811, -71271), P(129649, -47514), P(159568, 87109), P(-29919, 110866), P(-109703, 23757)]
    if not exact:
        pts = [(float(a), float(b)) for a, b in pts]
    return lib.sp().Primitive.polygon(pts)


def answers(obj, probes_, exact, heavy=True):
    """canonical tuple of everything a caller can ask; with heavy=True also
    an operator with a third shape (which may re-split obj's boundary)"""
    Sp = lib.sp()
    k = lib.kind_of(obj)
    if k in ("empty", "whole"):
        return (k,)
    out = [k]
    area = float(obj) if not exact else Sp.IntegrateShape.area(obj)
    out.append(("area", area))
    out.append(("lengths", tuple(sorted(float(j) for j in obj.jordans))))
    out.append(("moments", Sp.IntegrateShape.polynomial(obj, 1, 0), Sp.IntegrateShape.polynomial(obj, 0, 1)))
    b = obj.box()
    out.append(("box", (b.lowpt[0], b.lowpt[1], b.toppt[0], b.toppt[1])))
    out.append(("in", tuple(p in obj for p in probes_)))
    if not heavy:
        return tuple(out)
    t = third_shape(exact)
    out.append(("eq", obj == t, obj == obj))
    out.append(("contains", t in obj, obj in t))
    r = obj & third_shape(exact)
    rk = lib.kind_of(r)
    out.append(("and", rk, None if rk in ("empty", "whole") else float(r), tuple((p in r) if rk not in ("empty", "whole") else rk == "whole" for p in probes_)))
    return tuple(out)


def same(a, b, exact, tol=1e-9):
    if type(a) is tuple and type(b) is tuple:
        return len(a) == len(b) and all(same(x, y, exact, tol) for x, y in zip(a, b))
    if isinstance(a, (bool, str)) or a is None or isinstance(b, (bool, str)) or b is None:
        return a == b and type(a) is type(b)
    if exact:
        return a == b
    return abs(float(a) - float(b)) <= tol * max(1.0, abs(float(a)), abs(float(b)))


def run_history(specs, steps, check):
    """execute the history on library objects; `check(i, obj, step_index)`
    is called for every object touched by a step.  Returns the bundle."""
    Sp = lib.sp()
    bundle = [lib.build(s) for s in specs]
    split_by_op = set()
    flags = {"reused": False, "after_tf": False, "last_tf": set()}
    for n, st_ in enumerate(steps):
        k = st_["k"]
        i = st_["i"] % len(bundle)
        obj = bundle[i]
        defined = lib.kind_of(obj) not in ("empty", "whole")
        touched = []
        if k in ("move", "scale", "rotate"):
            if not defined:
                continue
            if k == "move":
                obj.move(st_["v"][0], st_["v"][1])
            elif k == "scale":
                obj.scale(st_["s"][0], st_["s"][1])
                flags["last_tf"].add(i)
            else:
                obj.rotate(st_["a"], degrees=bool(st_.get("deg")))
                flags["last_tf"].add(i)
            touched = [i]
        elif k == "binop":
            j = st_["j"] % len(bundle)
            if j == i:
                j = (i + 1) % len(bundle)
            if i in split_by_op or j in split_by_op:
                flags["reused"] = True
            r = oc.apply_op(st_["op"], obj, bundle[j])
            split_by_op.update((i, j))
            bundle.append(r)
            touched = [i, j, len(bundle) - 1]
        elif k == "not":
            bundle.append(~obj)
            touched = [i, len(bundle) - 1]
        elif k == "query":
            if i in flags["last_tf"]:
                flags["after_tf"] = True
            touched = [i]
        elif k == "clean":
            if defined:
                for jd in obj.jordans:
                    jd.clean()
            touched = [i]
        elif k == "split":
            if defined:
                jd = obj.jordans[st_["c"] % len(obj.jordans)]
                jd.split([st_["seg"] % len(jd.segments)], [st_["t"]])
            touched = [i]
        for t in touched:
            check(t, bundle[t], n)
    return bundle, flags


def judge(ctx, case):
    specs, steps = case["specs"], case["steps"]
    curves = [c for s in specs for c in lib.spec_curves(s)]
    rational = all(rg.curve_is_exact(c) and rg.curve_is_polygon(c) for c in curves)
    float_steps = any(st_["k"] == "rotate" or any(not rg.is_exact(v) for v in st_.get("v", []) + st_.get("s", []) + [st_.get("t", 0)]) for st_ in steps)
    exact = rational and not float_steps
    # contact between bundle members is the open operator finding: skip such histories
    for a in range(len(specs)):
        for b in range(a + 1, len(specs)):
            ca, cb = lib.spec_curves(specs[a]), lib.spec_curves(specs[b])
            if ca and cb and oc.classify_pair(ca, cb)[0] in ("contact", "ill"):
                ctx.count("skipped-contact-or-ill")
                return
    probes_ = [(-5.5, 2.25), (3.125, 7.5), (11.0, -3.0), (0.375, 0.625), (20.5, 14.25), (-13.0, -6.5)]
    if not exact:
        probes_ = [(float(x), float(y)) for x, y in probes_]
    problems = []

    def check(t, obj, n, heavy=False):
        if problems:
            return
        with call_limit(300):
            # light questions twice in a row: identical answers
            l1 = answers(obj, probes_, exact, False)
            l2 = answers(obj, probes_, exact, False)
            twin_b = rebuild(obj)
            twin_a = _copy.deepcopy(obj) if (heavy or n % 3 == 0) else None
            tb = answers(twin_b, probes_, exact, False)
            ta = answers(twin_a, probes_, exact, False) if twin_a is not None else l1
            if heavy:
                # an operator with a third shape, on the live object and on
                # the twins (each gets re-split the same way)
                h, hb = answers(obj, probes_, exact, True), answers(twin_b, probes_, exact, True)
                ha = answers(twin_a, probes_, exact, True)
            else:
                h = hb = ha = None
        if not same(l1, l2, True):
            problems.append(("asking-twice-differs", "object %d after step %d: %r vs %r" % (t, n, l1, l2)))
        elif not same(l1, ta, exact) or (heavy and not same(h, ha, exact)):
            problems.append(("live-differs-from-deepcopy", "object %d after step %d (%r): live %r / %r, deepcopy %r / %r" % (t, n, steps[n], l1, h, ta, ha)))
        elif not same(l1, tb, exact) or (heavy and not same(h, hb, exact)):
            problems.append(("live-differs-from-rebuilt", "object %d after step %d (%r): live %r / %r, rebuilt %r / %r" % (t, n, steps[n], l1, h, tb, hb)))

    try:
        bundle, flags = run_history(specs, steps, check)
        for t, obj in enumerate(bundle):
            check(t, obj, len(steps) - 1, heavy=True)
    except BaseException as exc:
        # an operation of the history raised: results of operators share
        # boundary pieces with their operands, so later operators meet the
        # contact configurations of the open operator finding (C01), and
        # clean() may hit the pynurbs overflow (C15).  Whether a call raises is
        # decided by those properties; here it only ends the history.
        ctx.count("history-ended-by-exception:" + innermost_shapepy_frame(exc))
        return
    strata = ["kind:" + s["k"] for s in specs]
    if flags["reused"]:
        strata.append("reused-split-operand")
    if flags["after_tf"]:
        strata.append("query-after-scale-or-rotate")
    if any(s["k"] in ("move", "scale", "rotate") for s in steps):
        strata.append("transform")
    if any(s["k"] == "binop" for s in steps):
        strata.append("binop")
    ctx.evaluated(case, flags["reused"] or flags["after_tf"], strata)
    for kind, detail in problems[:1]:
        ctx.violation("history", kind, case, detail[:1500], "exact" if exact else "float")


# ------------------------------------------------------------------ processes
_RUNNER = r'''
import sys, json, hashlib
sys.path.insert(0, sys.argv[1]); sys.path.insert(0, sys.argv[2])
from vlib.engine import dec
from vlib.props import c10
from vlib import lib
data = dec(json.load(sys.stdin))
if data.get("warm"):
    import shapepy
    for d in range(1, 7):
        seg = shapepy.PlanarCurve([(k, (k * k) % 5) for k in range(d + 1)])
        seg(0.3); seg.derivate(1); seg.split([0.5])
        for piece in seg.split([0.25, 0.5]):
            piece.clean()
out = []
probes_ = [(-5.5, 2.25), (3.125, 7.5), (11.0, -3.0), (0.375, 0.625)]
def check(t, obj, n):
    out.append((t, n, repr(c10.answers(obj, probes_, False))))
try:
    c10.run_history(data["specs"], data["steps"], check)
except BaseException as exc:
    out.append(("raised", type(exc).__name__))
print(hashlib.sha1(repr(out).encode()).hexdigest(), len(out))
'''


def judge_process(ctx, case):
    src = os.environ.get("SHAPEPY_SRC", "/repo/src")
    verif = os.path.dirname(os.path.dirname(os.path.dirname(os.path.abspath(__file__))))
    digests = {}
    ctx.evaluated(case, True, ["process"])
    for label, hs, warm in (("seed0", "0", False), ("seed1", "1", False), ("seed2", "2", False), ("warm", "0", True)):
        env = dict(os.environ, PYTHONHASHSEED=hs, PYTHONWARNINGS="ignore", MPLBACKEND="Agg")
        payload = json.dumps(enc(dict(case, warm=warm)))
        try:
            res = subprocess.run([sys.executable, "-c", _RUNNER, verif, src], input=payload, capture_output=True, text=True, timeout=600, env=env)
        except subprocess.TimeoutExpired:
            ctx.count("process-timeout")
            return
        if res.returncode != 0:
            ctx.violation("process", "runner-failed", case, res.stderr[-800:])
            return
        digests[label] = res.stdout.strip()
    if len(set(digests.values())) != 1:
        ctx.violation("process", "answers-depend-on-process-state", case, repr(digests))


# ------------------------------------------------------------------ strategies
@st.composite
def history(draw, curved=False, maxlen=14):
    if curved:
        nk, deg = draw(st.sampled_from([("float", (1, 2)), ("float", (2,)), ("float", (1, 2, 3))]))
        kinds = ["simple+", "simple+", "simple-"]
    else:
        nk, deg = draw(st.sampled_from(["int", "frac", "float", "mixed"])), (1,)
        kinds = ["simple+", "simple+", "simple-", "connected+", "disjoint+", "connected-"]
    R = 10.0
    n = draw(st.integers(2, 3))
    specs = []
    for i in range(n):
        off = (round(draw(st.floats(-0.8, 0.8)) * R), round(draw(st.floats(-0.8, 0.8)) * R))
        # shifted lattices per member so that contact is unlikely
        snapnk = nk if nk != "int" else "frac"
        specs.append(draw(S.shape_spec(snapnk if i else nk, deg, center=(off[0] + 0.37 * i, off[1] + 0.21 * i),
                                       R=R * draw(st.sampled_from([0.7, 1.0, 1.3])), kinds=kinds)))
    steps = []
    L = draw(st.integers(3, maxlen if not curved else 6))
    for _ in range(L):
        k = draw(st.sampled_from(["binop", "binop", "binop", "move", "scale", "rotate", "query", "query", "not", "clean", "split"]))
        st_ = {"k": k, "i": draw(st.integers(0, 7))}
        if k == "binop":
            st_["j"] = draw(st.integers(0, 7))
            st_["op"] = draw(st.sampled_from(["-", "&", "|"] if nk != "int" else ["-", "&", "|", "^"]))
        elif k == "move":
            st_["v"] = [draw(st.integers(-3, 3)), draw(st.sampled_from([F(1, 2), 1, -2, F(-3, 4)]))]
        elif k == "scale":
            st_["s"] = [draw(st.sampled_from([2, F(1, 2), 3, F(3, 2)]))] * 2
        elif k == "rotate":
            st_["a"] = draw(st.sampled_from([90, 30, 17.5, -45]))
            st_["deg"] = True
        elif k == "split":
            st_.update(c=draw(st.integers(0, 3)), seg=draw(st.integers(0, 9)), t=draw(st.sampled_from([F(1, 2), F(1, 3), 0.25])))
        steps.append(st_)
    return {"specs": specs, "steps": steps}


def parts(tier):
    q = tier == "quick"
    return [
        Part("histories", judge, history(False, maxlen=10), n=260 if q else 8000, budget_s=80 if q else 3000),
        Part("histories-curved", judge, history(True), n=24 if q else 400, budget_s=70 if q else 3000, shards=12),
        Part("process", judge_process, history(False, maxlen=6), n=8 if q else 60, budget_s=60 if q else 1500, shards=4),
    ]
