"""C14 -- Curve intersection reports exactly the crossings, with the documented encoding"""
from __future__ import annotations

from fractions import Fraction as F

from hypothesis import strategies as st

from .. import lib
from .. import refgeom as rg
from .. import strategies as S
from ..engine import Part, call_limit, innermost_shapepy_frame

PROPERTY = "C14"
RULE = (
    "Hypothesis draws pairs of closed curves (star-shaped and template polygons of every numeric kind; curves with "
    "segments of degree 1..3) in the configurations crossing / nested / apart-with-overlapping-boxes / identical / "
    "rotated copy / sharing whole segments, and all four flag combinations plus A & B. Oracle: the reference "
    "crossing finder (exact line-line solver in Fractions; bounding-box subdivision with Newton polish for curved "
    "pieces). Checked: index and parameter ranges, A.seg[a](u) == B.seg[b](v) (exactly for rational lines, 1e-6 "
    "otherwise), every well-conditioned reference crossing reported exactly once per segment pair, nothing else "
    "reported, even number of transversal crossings, swap symmetry, (None,None) iff the two segments have equal "
    "control points (only with equal_beziers=True), end_points=False removes exactly the tuples with both "
    "parameters in {0,1}, A & B equals both flags False. Non-trivial: >= 2 crossings, or overlapping boxes "
    "without crossing, or an identical segment."
)
MANDATORY = ["after-in-place-transform", "tiny-rational", "crossings>=2", "boxes-overlap-no-crossing", "identical-segment", "curved", "polygon-exact", "flags"]
CONSTANTS = {"min_sin_theta": 0.2, "param_tol_curved": 1e-4, "point_tol": 1e-6}


def near_tangent(case) -> bool:
    """some crossing of the two curves is not well conditioned: crossing
    angle with sin(theta) < 0.2 (open finding D17) or not isolated"""
    ca, cb = lib.tup(case["a"]), lib.tup(case["b"])
    if rg.curve_is_polygon(ca) and rg.curve_is_polygon(cb):
        return False
    try:
        for c in rg.curve_curve_crossings(ca, cb):
            if c["sin"] < 0.2:
                return True
    except rg.Degenerate:
        return True
    return False


KNOWN_CLASSES = {"curved-crossing-with-sin-theta<0.2": near_tangent}


def _same_ctrl(sa, sb):
    if len(sa) != len(sb):
        return False
    return all(abs(float(p[0]) - float(q[0])) <= 1e-9 and abs(float(p[1]) - float(q[1])) <= 1e-9 for p, q in zip(sa, sb))


def _expected(ca, cb):
    """reference: dict (a,b) -> list of crossings; set of identical pairs;
    set of pairs that overlap collinearly (completeness not judged there)"""
    cross, ident, overlap = {}, set(), set()
    for i, sa in enumerate(ca):
        for j, sb in enumerate(cb):
            if _same_ctrl(sa, sb):
                ident.add((i, j))
                continue
            try:
                cr = rg.seg_seg_crossings(sa, sb)
            except rg.Degenerate:
                overlap.add((i, j))
                continue
            if cr:
                cross[(i, j)] = cr
    return cross, ident, overlap


def judge(ctx, case):
    Sp = lib.sp()
    ca, cb = lib.tup(case["a"]), lib.tup(case["b"])
    tf = case.get("tf")
    if tf:
        from .c09 import model_step

        ca = model_step([ca], tf)[0]
    polygon = rg.curve_is_polygon(ca) and rg.curve_is_polygon(cb)
    exact = polygon and rg.curve_is_exact(ca) and rg.curve_is_exact(cb)
    if not polygon and ctx.known_class(case, KNOWN_CLASSES):
        return
    cross, ident, overlap = _expected(ca, cb)
    ncross = sum(len(v) for v in cross.values())
    # float data: crossings within rounding of a segment end are undecidable
    if not exact:
        for cr in cross.values():
            for c in cr:
                for par in (c["t"], c["u"]):
                    pf = float(par)
                    if pf not in (0.0, 1.0) and (pf < 1e-6 or pf > 1 - 1e-6):
                        ctx.count("undecided-crossing-at-segment-end")
                        return
                if not polygon and c["da"] * c["db"] * c["sin"] < 1e-2:
                    ctx.count("skipped-illconditioned")
                    return
    boxes_overlap_no_cross = False
    if ncross == 0 and not ident:
        ba, bb = rg.curve_box(ca), rg.curve_box(cb)
        boxes_overlap_no_cross = rg._boxes_overlap([float(x) for x in ba], [float(x) for x in bb])
    strata = ["curved" if not polygon else ("polygon-exact" if exact else "polygon-float"), "flags"]
    if ncross >= 2:
        strata.append("crossings>=2")
    if boxes_overlap_no_cross:
        strata.append("boxes-overlap-no-crossing")
    if ident:
        strata.append("identical-segment")
    strata.append("config:" + case.get("config", "?"))
    if case.get("config", "").endswith("-tiny"):
        strata.append("tiny-rational")
    if tf:
        strata.append("after-in-place-transform")
    ctx.evaluated(case, ncross >= 2 or boxes_overlap_no_cross or bool(ident), strata)
    where = "polygon" if polygon else "curved"
    try:
        with call_limit(300):
            if tf:
                # the same objects were intersected before A was transformed in
                # place (the model `ca` is already the transformed curve)
                from .c09 import apply_step

                JA = lib.jordan_from_curve(lib.tup(case["a"]))
                JB = lib.jordan_from_curve(cb)
                JA.intersection(JB)
                JB.intersection(JA)
                apply_step(JA, tf)
            else:
                JA = lib.jordan_from_curve(ca)
                JB = lib.jordan_from_curve(cb)
            full = JA.intersection(JB)
            swapped = JB.intersection(JA)
            both_off = JA.intersection(JB, equal_beziers=False, end_points=False)
            amp = JA & JB
            if polygon:
                no_eq = JA.intersection(JB, equal_beziers=False)
                no_end = JA.intersection(JB, end_points=False)
            else:
                no_eq = no_end = None
    except BaseException as exc:
        ctx.violation("intersection", "raised", case, repr(exc), innermost_shapepy_frame(exc))
        return
    ptol = 0 if exact else (1e-9 if polygon else 1e-4)
    # ---- soundness of every reported tuple --------------------------------
    seen = {}
    for tup_ in full:
        if len(tup_) != 4:
            ctx.violation("encoding", "tuple-length", case, repr(tup_), where)
            return
        a, b, u, v = tup_
        if not (isinstance(a, int) and isinstance(b, int) and 0 <= a < len(ca) and 0 <= b < len(cb)):
            ctx.violation("encoding", "segment-index-out-of-range", case, repr(tup_), where)
            return
        if u is None or v is None:
            if not (u is None and v is None):
                ctx.violation("encoding", "half-None", case, repr(tup_), where)
            elif (a, b) not in ident:
                ctx.violation("encoding", "None-None-for-non-identical-segments", case,
                              "%r: segments %r and %r" % (tup_, ca[a], cb[b]), where)
            continue
        if not (0 <= u <= 1 and 0 <= v <= 1):
            ctx.violation("encoding", "parameter-out-of-range", case, repr(tup_), where)
            return
        pa = rg.bez_eval(ca[a], lib.num(u))
        pb = rg.bez_eval(cb[b], lib.num(v))
        if exact:
            if pa[0] != pb[0] or pa[1] != pb[1]:
                ctx.violation("soundness", "points-differ", case, "%r: %r vs %r" % (tup_, pa, pb), where)
                return
        elif rg.dist(pa, pb) > 1e-6:
            ctx.violation("soundness", "points-differ", case, "%r: distance %.3g" % (tup_, rg.dist(pa, pb)), where)
            return
        seen.setdefault((a, b), []).append((lib.num(u), lib.num(v)))
    # ---- completeness / exactly once ---------------------------------------
    def interior(t, u):
        return 1e-6 < float(t) < 1 - 1e-6 and 1e-6 < float(u) < 1 - 1e-6

    # only transversal crossings are demanded: two collinear segments that
    # merely touch end to end (sin = 0) need not be listed
    cross = {k: [c for c in v if c["sin"] > 0] for k, v in cross.items()}
    touching = {k for k, v in cross.items() if not v}
    overlap = overlap | touching
    cross = {k: v for k, v in cross.items() if v}
    if not exact:
        # float data: a contact exactly at a segment end is decided by the
        # last bit of the library's arithmetic; only interior crossings are
        # compared for completeness (soundness above covers the rest)
        cross = {k: [c for c in v if interior(c["t"], c["u"])] for k, v in cross.items()}
        seen = {k: [g for g in v if interior(g[0], g[1])] for k, v in seen.items()}
        seen = {k: v for k, v in seen.items() if v}
    for (a, b), crs in cross.items():
        got = seen.get((a, b), [])
        for c in crs:
            m = [g for g in got if abs(float(g[0]) - float(c["t"])) <= ptol and abs(float(g[1]) - float(c["u"])) <= ptol]
            if exact:
                m = [g for g in got if g[0] == c["t"] and g[1] == c["u"]]
            if len(m) == 0:
                ctx.violation("completeness", "crossing-missed", case,
                              "segments (%d,%d): reference crossing t=%r u=%r at %r not reported; reported %r"
                              % (a, b, c["t"], c["u"], rg.fl(c["p"]), got), where)
                return
            if len(m) > 1:
                ctx.violation("completeness", "crossing-duplicated", case, "segments (%d,%d): %r" % (a, b, m), where)
                return
    for (a, b), got in seen.items():
        if (a, b) in overlap:
            continue
        want = cross.get((a, b), [])
        if len(got) != len(want):
            ctx.violation("completeness", "spurious-crossing", case,
                          "segments (%d,%d): reported %r, reference has %d crossings" % (a, b, got, len(want)), where)
            return
    # ---- (None, None) appears for identical segments ------------------------
    nn = {(a, b) for (a, b, u, v) in full if u is None}
    for pair in ident:
        if pair not in nn:
            ctx.violation("encoding", "identical-segments-not-marked", case, "pair %r" % (pair,), where)
            return
    # ---- parity ----------------------------------------------------------
    if not overlap and not ident:
        pts = rg.distinct_crossing_points([c for v in cross.values() for c in v], 1e-9)
        # (float data: a crossing within the library's own end tolerance 1e-6 of
        # a segment end is an end contact, decided by rounding)
        em = 0.0 if exact else 2e-6
        interior_only = all(em < float(c["t"]) < 1 - em and em < float(c["u"]) < 1 - em for v in cross.values() for c in v)
        if interior_only and len(pts) % 2 == 1:
            # transversal crossings of two closed curves come in pairs: the
            # reference itself must agree, otherwise the case is degenerate
            ctx.count("odd-reference-count-skipped")
        elif interior_only:
            reported = [t for t in full if t[2] is not None]
            if not exact:
                # float data: an entry exactly at a segment end is a contact
                # created by rounding (e.g. of an in-place rotation) that the
                # reference, with its own rounding, does not have
                reported = [t for t in reported if em < float(t[2]) < 1 - em and em < float(t[3]) < 1 - em]
            if len(reported) % 2 == 1:
                ctx.violation("parity", "odd-number-of-crossings", case, repr(reported), where)
    # ---- symmetry ------------------------------------------------------------
    def norm(ts):
        out = []
        for (a, b, u, v) in ts:
            out.append((a, b, None if u is None else (u if exact else round(float(u), 5)),
                        None if v is None else (v if exact else round(float(v), 5))))
        return sorted(out, key=repr)

    img = [(b, a, v, u) for (a, b, u, v) in swapped]
    if norm(img) != norm(full):
        ctx.violation("symmetry", "swap-image-differs", case, "A.intersection(B)=%r B.intersection(A)=%r" % (full, swapped), where)
    # ---- flags -----------------------------------------------------------------
    def ends(u, v):
        return u is not None and u in (0, 1) and v in (0, 1)

    want_both = [t for t in full if t[2] is not None and not ends(t[2], t[3])]
    if norm(both_off) != norm(want_both):
        ctx.violation("flags", "both-flags-off", case, "got %r want %r" % (both_off, want_both), where)
    if norm(amp) != norm(both_off):
        ctx.violation("flags", "and-operator", case, "A & B = %r, flags off = %r" % (amp, both_off), where)
    if no_eq is not None:
        if norm(no_eq) != norm([t for t in full if t[2] is not None]):
            ctx.violation("flags", "equal_beziers=False", case, "got %r from %r" % (no_eq, full), where)
        if norm(no_end) != norm([t for t in full if not ends(t[2], t[3])]):
            ctx.violation("flags", "end_points=False", case, "got %r from %r" % (no_end, full), where)


# ------------------------------------------------------------------ strategies
@st.composite
def pair_cases(draw, curved):
    if curved:
        nk, deg = draw(st.sampled_from([("float", (1, 2)), ("float", (2,)), ("float", (1, 2, 3)), ("float", (3,)), ("frac", (1, 2))]))
    else:
        nk, deg = draw(st.sampled_from(S.NUMKINDS)), (1,)
    R = S.base_radius(nk)
    config = draw(st.sampled_from(["cross", "cross", "cross", "nested", "apart", "identical", "rotated", "shared"]
                                  if not curved else ["cross", "cross", "cross", "nested", "apart", "identical", "rotated"]))
    if curved and draw(st.integers(0, 4)) == 0:
        # exactly axis-parallel straight edges against curved segments
        w, h = R * draw(st.sampled_from([0.6, 0.8, 1.0])), R * draw(st.sampled_from([0.5, 0.7, 0.9]))
        num = (lambda v: F(v).limit_denominator(64)) if nk == "frac" else float
        a = rg.polygon_curve([(num(-w), num(-h)), (num(w), num(-h)), (num(w), num(h)), (num(-w), num(h))])
    else:
        a = draw(S.simple_curve(nk, deg, (0.0, 0.0), 0.45 * R, R, draw(st.booleans()), templates=not curved))
    if config == "identical":
        b = [list(seg) for seg in a]
    elif config == "rotated":
        k = draw(st.integers(1, max(1, len(a) - 1)))
        b = a[k:] + a[:k]
        if draw(st.booleans()):
            b = rg.curve_reverse(b)
    elif config == "shared":
        # polygon sharing some whole edges with a: replace one vertex
        verts = rg.curve_vertices(a)
        k = draw(st.integers(0, len(verts) - 1))
        c = draw(S.star_curve(nk, (0.0, 0.0), 1.1 * R, 1.6 * R, (3, 3), (1,), False))
        verts2 = list(verts)
        verts2[k] = c[0][0]
        b = rg.polygon_curve(verts2)
    else:
        if config == "cross":
            off = (draw(st.floats(-1.0, 1.0)) * R, draw(st.floats(-1.0, 1.0)) * R)
            rb = (0.4 * R, R)
        elif config == "nested":
            off = (0.0, 0.0)
            rb = (0.05 * R, 0.3 * R) if draw(st.booleans()) else (1.7 * R, 2.5 * R)
        else:
            sx = draw(st.sampled_from([-1, 1]))
            off = (sx * 1.5 * R, sx * 1.4 * R * draw(st.sampled_from([-1, 1])))
            rb = (0.5 * R, R)
        if nk in ("int", "mixed"):
            off = (float(round(off[0])), float(round(off[1])))
        b = draw(S.star_curve(nk, off, rb[0], rb[1], (3, 7), deg, draw(st.booleans())))
    out = {"a": a, "b": b, "config": config}
    if draw(st.integers(0, 3)) == 0 and config in ("cross", "nested", "apart"):
        tfk = draw(st.sampled_from(["move", "scale", "rotate"]))
        if tfk == "move":
            out["tf"] = {"k": "move", "v": [draw(st.integers(-3, 3)), draw(st.integers(-3, 3))], "form": 0}
        elif tfk == "scale":
            out["tf"] = {"k": "scale", "s": [draw(st.sampled_from([2, F(1, 2), 1])), draw(st.sampled_from([2, F(3, 2), 1]))]}
        else:
            out["tf"] = {"k": "rotate", "a": draw(st.sampled_from([90, 180, 270, 30])), "deg": True}
        return out
    if not curved and nk in ("int", "frac") and draw(st.integers(0, 3)) == 0:
        # the same exact drawing in millimetres: edges of ~1e-3 units
        f = F(1, 400 * int(R))
        out["a"] = rg.curve_map(lib.tup(a), lambda p: (p[0] * f, p[1] * f))
        out["b"] = rg.curve_map(lib.tup(b), lambda p: (p[0] * f, p[1] * f))
        out["config"] = config + "-tiny"
    return out


def parts(tier):
    q = tier == "quick"
    return [
        Part("polygons", judge, pair_cases(False), n=2500 if q else 60000, budget_s=60 if q else 1200),
        Part("curved", judge, pair_cases(True), n=160 if q else 3200, budget_s=100 if q else 2400),
    ]
