"""C09 -- move / rotate / scale transform the region exactly as the affine map does"""
from __future__ import annotations

import math
from fractions import Fraction as F

from hypothesis import strategies as st

from .. import lib, probes
from .. import refgeom as rg
from .. import strategies as S
from ..engine import Part, call_limit, innermost_shapepy_frame

PROPERTY = "C09"
RULE = (
    "Hypothesis draws a shape of every kind (unbounded and composite included; rational/float polygons, curved) "
    "and a sequence of 1-6 transformations: move by int/Fraction/float vectors in both call forms, scale by positive "
    "int/Fraction/float factors (also anisotropic), rotate in radians and in degrees (int and float angles, "
    "multiples of 90 degrees included), followed by the inverse sequence. Oracle: the same maps applied to the "
    "model's control points: after every step the call returned the same object, the library's control points equal "
    "the model's (exactly, with rational types, for rational data under move/scale; 1e-9*size otherwise), "
    "float(shape) = |det T| * area, moments up to order 2 equal the reference integrals of the transformed model, "
    "the signed boundary length matches the transformed polygon, T(p) in S' iff p in S on margin points; the "
    "inverse sequence restores the original control points (exactly / 1e-9) and a shape == to a fresh original. "
    "Non-trivial: >= 2 boundary curves or a curved boundary, and two different transformation types."
)
MANDATORY = ["move", "scale", "rotate", "rotate-degrees", "anisotropic", "rational-exact", "kind:connected", "kind:disjoint",
             "unbounded", "curved", "inverse", "move-by-own-vertex"]


def model_step(curves, step):
    k = step["k"]
    if k == "move":
        vx, vy = step["v"]
        return [rg.curve_map(c, lambda p: (p[0] + vx, p[1] + vy)) for c in curves]
    if k == "scale":
        sx, sy = step["s"]
        return [rg.curve_map(c, lambda p: (p[0] * sx, p[1] * sy)) for c in curves]
    ang = step["a"] * math.pi / 180 if step.get("deg") else step["a"]
    c_, s_ = math.cos(ang), math.sin(ang)
    return [rg.curve_map(c, lambda p: (c_ * float(p[0]) - s_ * float(p[1]), s_ * float(p[0]) + c_ * float(p[1]))) for c in curves]


def apply_step(shape, step):
    k = step["k"]
    if k == "move":
        if step.get("form", 0) == 0:
            return shape.move(step["v"][0], step["v"][1])
        return shape.move((step["v"][0], step["v"][1]))
    if k == "scale":
        return shape.scale(step["s"][0], step["s"][1])
    if step.get("deg"):
        return shape.rotate(step["a"], degrees=True)
    return shape.rotate(step["a"])


def inverse_step(step):
    k = step["k"]
    if k == "move":
        return dict(step, v=[-step["v"][0], -step["v"][1]])
    if k == "scale":
        inv = lambda s: (F(1) / F(s)) if rg.is_exact(s) else 1.0 / s
        return dict(step, s=[inv(step["s"][0]), inv(step["s"][1])])
    return dict(step, a=-step["a"])


def _match(got_curves, want_curves, exact, tol):
    """multiset comparison of curves (library order of components may differ)"""
    left = list(want_curves)
    for g in got_curves:
        hit = None
        for i, w in enumerate(left):
            if len(w) != len(g) or any(len(a) != len(b) for a, b in zip(g, w)):
                continue
            if exact:
                same = all(p[0] == q[0] and p[1] == q[1] for a, b in zip(g, w) for p, q in zip(a, b))
            else:
                same = all(rg.dist(p, q) <= tol for a, b in zip(g, w) for p, q in zip(a, b))
            if same:
                hit = i
                break
        if hit is None:
            return False, g
        left.pop(hit)
    return not left, None


def judge(ctx, case):
    Sp = lib.sp()
    spec, steps = case["spec"], case["steps"]
    curves0 = lib.spec_curves(spec)
    curved = any(len(s) > 2 for c in curves0 for s in c)
    kinds = {s["k"] for s in steps}
    rational = all(rg.curve_is_exact(c) for c in curves0)
    strata = ["kind:" + spec["k"]] + sorted(kinds)
    if any(s["k"] == "rotate" and s.get("deg") for s in steps):
        strata.append("rotate-degrees")
    if any(s["k"] == "scale" and s["s"][0] != s["s"][1] for s in steps):
        strata.append("anisotropic")
    if lib.spec_moment(spec) < 0:
        strata.append("unbounded")
    if curved:
        strata.append("curved")
    ctx.evaluated(case, (len(curves0) >= 2 or curved) and len(kinds) >= 2, strata + ["inverse"])
    where = "curved" if curved else "polygon"
    try:
        with call_limit(120):
            shape = lib.build(spec)
            fresh = lib.build(spec)
    except BaseException as exc:
        ctx.violation("transform", "constructor-raised", case, repr(exc), innermost_shapepy_frame(exc))
        return
    # questions asked before the first transformation (whatever they cache
    # must not survive it)
    try:
        with call_limit(120):
            _ = (0.1, 0.2) in shape
            shape.box()
            float(shape)
            Sp.IntegrateShape.polynomial(shape, 1, 0)
            for j in shape.jordans:
                float(j)
                j.box()
                for sg in j.segments:
                    sg(0.5)
                    sg.box()
                if not curved:
                    _ = j & fresh.jordans[0]
    except BaseException as exc:
        ctx.violation("transform", "raised-in-warm-up", case, repr(exc), innermost_shapepy_frame(exc))
        return
    model = [lib.tup(c) for c in curves0]
    exact = rational
    region0 = lib.spec_region(spec)
    pts0 = [p for p in probes.uniform_points(curves0, case["us"]) + probes.near_boundary_points(curves0, case["us"], max_segs=4)
            if region0.clear(p, 1e-4 * max(1.0, max(rg.curve_size(c) for c in curves0)))][:10]
    pts = list(pts0)
    for n, step in enumerate(steps + [inverse_step(s) for s in reversed(steps)]):
        phase = "forward" if n < len(steps) else "inverse"
        if step["k"] == "rotate" or not all(rg.is_exact(v) for v in step.get("v", []) + step.get("s", [])):
            exact = False
        try:
            with call_limit(120):
                ret = apply_step(shape, step)
        except BaseException as exc:
            ctx.violation("transform", "raised", case, "step %d %r: %r" % (n, step, exc), innermost_shapepy_frame(exc))
            return
        if ret is not shape:
            ctx.violation("transform", "does-not-return-self", case, "step %d %r returned %r" % (n, step, ret), step["k"])
        model = model_step(model, step)
        pts = [model_step([[[p, p]]], step)[0][0][0] for p in pts]
        size = max(1.0, max(rg.curve_size(c) for c in model), max(abs(float(v)) for c in model for s in c for p in s for v in p))
        got = lib.read_curves(shape)
        ok, bad = _match(got, model, exact, 1e-9 * size)
        if not ok:
            ctx.violation("transform", "control-points-differ", case,
                          "%s step %d %r: library curve %r not among the model's" % (phase, n, step, bad[:2] if bad else None), step["k"] + ":" + where)
            return
        # light observations on the same object between the steps
        try:
            with call_limit(120):
                b = shape.box()
                bx = (min(float(p[0]) for c in model for sg in c for p in sg), min(float(p[1]) for c in model for sg in c for p in sg),
                      max(float(p[0]) for c in model for sg in c for p in sg), max(float(p[1]) for c in model for sg in c for p in sg))
                gotb = (float(b.lowpt[0]), float(b.lowpt[1]), float(b.toppt[0]), float(b.toppt[1]))
                if any(abs(x - y) > 1e-9 * size for x, y in zip(gotb, bx)):
                    ctx.violation("transform", "box-after-step", case, "%s step %d %r: box %r, model %r" % (phase, n, step, gotb, bx), step["k"])
                    return
                for j, mc in zip(shape.jordans, got):
                    sg = j.segments[0]
                    a, w = sg(0.5), rg.bez_eval([rg.fl(q) for q in mc[0]], 0.5)
                    if rg.dist(a, w) > 1e-9 * size:
                        ctx.violation("transform", "segment-evaluation-after-step", case,
                                      "%s step %d %r: segment(1/2) = %r, control points say %r" % (phase, n, step, rg.fl(a), w), step["k"])
                        return
                if phase == "forward" and pts:
                    region_now = None
        except BaseException as exc:
            ctx.violation("transform", "raised-in-observation", case, repr(exc), innermost_shapepy_frame(exc))
            return
        if exact:
            ctx.count("stratum:rational-exact")
            badt = [v for c in got for s in c for p in s for v in p if not rg.is_exact(v)]
            if badt:
                ctx.violation("transform", "rational-became-float", case, "%s step %d %r: %r" % (phase, n, step, badt[:2]), step["k"])
                return
    # a shape built from the caller's own Point2D objects, translated by one of
    # them: the vector must not change under the caller's feet and every vertex
    # moves by its original value
    if not curved and spec["k"] == "simple":
        try:
            with call_limit(60):
                verts0 = [seg[0] for seg in curves0[0]]
                objs = [Sp.Point2D(v[0], v[1]) for v in verts0]
                poly = Sp.Primitive.polygon(objs)
                vec = objs[case["us"] and int(case["us"][0] * len(objs)) % len(objs)]
                v0 = (lib.num(vec[0]), lib.num(vec[1]))
                poly.move(vec)
                after_vec = (lib.num(vec[0]), lib.num(vec[1]))
                gotv = [(lib.num(q[0]), lib.num(q[1])) for q in poly.jordans[0].vertices]
                wantv = [(v[0] + v0[0], v[1] + v0[1]) for v in verts0]
                ctx.count("stratum:move-by-own-vertex")
                if after_vec != v0:
                    ctx.violation("transform", "move-changed-the-callers-vector", case, "vector %r became %r" % (v0, after_vec), "move")
                elif any(abs(float(a[0]) - float(b[0])) > 1e-9 * size or abs(float(a[1]) - float(b[1])) > 1e-9 * size for a, b in zip(gotv, wantv)):
                    ctx.violation("transform", "move-by-own-vertex", case, "vertices %r, expected %r" % (gotv[:4], wantv[:4]), "move")
        except BaseException as exc:
            ctx.violation("transform", "raised-in-move-by-own-vertex", case, repr(exc), innermost_shapepy_frame(exc))
    # observations after the full forward sequence are made on a second object
    # that was asked the same questions before being transformed
    try:
        with call_limit(240):
            shape2 = lib.build(spec)
            _ = (0.1, 0.2) in shape2
            shape2.box()
            float(shape2)
            Sp.IntegrateShape.polynomial(shape2, 1, 0)
            Sp.IntegrateShape.polynomial(shape2, 1, 1)
            for j in shape2.jordans:
                float(j)
                j.box()
            model2 = [lib.tup(c) for c in curves0]
            pts2 = list(pts0)
            for step in steps:
                apply_step(shape2, step)
                model2 = model_step(model2, step)
                pts2 = [model_step([[[p, p]]], step)[0][0][0] for p in pts2]
            area = float(shape2)
            ref_area = float(sum(rg.curve_area(c) for c in model2))
            scale = max(abs(ref_area), 1e-300)
            size = max(1.0, max(abs(float(v)) for c in model2 for s in c for p in s for v in p))
            if abs(area - ref_area) > 1e-9 * (scale + size * max(rg.curve_size(c) for c in model2)):
                ctx.violation("transform", "area", case, "float(shape) = %r after %r, model %r" % (area, steps, ref_area), where)
            for (a, b) in ((1, 0), (0, 1), (1, 1), (2, 0)):
                from .c04 import _rule_exact

                if not all(_rule_exact(len(sg) - 1, a, b) for c in model2 for sg in c):
                    continue  # default quadrature not exact for this degree (C04)
                got_m = float(Sp.IntegrateShape.polynomial(shape2, a, b))
                ref_m = float(sum(rg.curve_moment(c, a, b) for c in model2))
                from .c04 import _abs_scale

                if abs(got_m - ref_m) > 1e-9 * _abs_scale(model2, a, b):
                    ctx.violation("transform", "moment", case, "moment (%d,%d) = %r after %r, model %r" % (a, b, got_m, steps, ref_m), where)
                    break
            # signed boundary length of every curve (orientation and size)
            if not curved:
                want = sorted((1 if rg.curve_area(c) > 0 else -1) * sum(rg.dist(s[0], s[1]) for s in c) for c in model2)
                have = sorted(float(j) for j in shape2.jordans)
                if any(abs(h - w) > 1e-9 * max(1.0, abs(w)) for h, w in zip(have, want)):
                    ctx.violation("transform", "signed-length", case, "float(jordan) = %r after %r, model %r" % (have, steps, want), where)
            # membership of transformed points
            for p0, p1 in zip(pts0, pts2):
                truth = region0.contains(p0)
                got_in = (float(p1[0]), float(p1[1])) in shape2
                if got_in is not truth:
                    ctx.violation("transform", "membership-after-transform", case, "p=%r T(p)=%r: %r, expected %r" % (p0, rg.fl(p1), got_in, truth), where)
                    break
            # restored shape equals a fresh original (the control points were
            # already compared above; == is exercised on top of that.  Whether
            # == may raise is the business of C07 / the open finding
            # KF-C15-abs-parallel, e.g. after scaling to a tiny size)
            try:
                eq = shape == fresh
            except BaseException as exc:
                ctx.count("equality-raised:" + type(exc).__name__)
                eq = True
            if eq is not True:
                ctx.violation("transform", "inverse-not-equal-to-original", case, "shape == fresh original -> %r after %r and inverse" % (eq, steps), where)
    except BaseException as exc:
        ctx.violation("transform", "raised-in-observation", case, repr(exc), innermost_shapepy_frame(exc))


# ------------------------------------------------------------------ strategies
def _pos():
    return st.one_of(st.integers(1, 9), st.builds(lambda n, d: F(n, d), st.integers(1, 40), st.sampled_from([2, 3, 4, 5, 8])),
                     st.floats(0.2, 8.0).map(lambda v: round(v, 3)))


def _vec():
    return st.one_of(st.integers(-50, 50), st.builds(lambda n, d: F(n, d), st.integers(-200, 200), st.sampled_from([2, 3, 7, 8])),
                     st.floats(-50, 50).map(lambda v: round(v, 3)))


@st.composite
def step(draw, rational_only):
    k = draw(st.sampled_from(["move", "scale", "rotate"] if not rational_only else ["move", "scale"]))
    if k == "move":
        v = [draw(_vec()), draw(_vec())]
        if rational_only:
            v = [x if rg.is_exact(x) else F(x).limit_denominator(8) for x in v]
        return {"k": "move", "v": v, "form": draw(st.integers(0, 1))}
    if k == "scale":
        sx = draw(_pos())
        sy = sx if draw(st.booleans()) else draw(_pos())
        s = [sx, sy]
        if rational_only:
            s = [x if rg.is_exact(x) else F(x).limit_denominator(8) for x in s]
        return {"k": "scale", "s": s}
    if draw(st.booleans()):
        a = draw(st.one_of(st.integers(-360, 360), st.sampled_from([90, 180, 270, -90]), st.floats(-360, 360).map(lambda v: round(v, 2))))
        return {"k": "rotate", "a": a, "deg": True}
    return {"k": "rotate", "a": draw(st.one_of(st.floats(-6.3, 6.3), st.sampled_from([math.pi / 2, math.pi, -math.pi / 2]), st.integers(-3, 3))), "deg": False}


@st.composite
def cases(draw):
    nk, deg = draw(S.numkind_and_degrees())
    spec = draw(S.shape_spec(nk, deg, kinds=S.KINDS[2:], templates=True))
    rational_only = nk in ("int", "frac") and draw(st.booleans())
    steps = draw(st.lists(step(rational_only), min_size=1, max_size=6))
    return {"spec": spec, "steps": steps, "us": draw(st.lists(st.floats(0, 1), min_size=12, max_size=12))}


def parts(tier):
    q = tier == "quick"
    return [Part("sequences", judge, cases(), n=1200 if q else 40000, budget_s=80 if q else 2400)]
