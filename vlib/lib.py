"""
Adapter between plain-data shape descriptions ("specs") / reference curves
and shapepy objects.  The only module (besides the property modules) that
imports the code under test.

spec (plain data, JSON-able through engine.enc):
  {"k": "empty"} | {"k": "whole"}
  {"k": "simple",    "curve": curve}
  {"k": "connected", "curves": [curve, ...]}          built with ConnectedShape
  {"k": "disjoint",  "parts": [spec, ...]}            built with DisjointShape
curve = list of segments, segment = list of [x, y] control points.
"""
from __future__ import annotations

import copy as _copy
from fractions import Fraction

from . import refgeom as rg

_sp = None


def sp():
    global _sp
    if _sp is None:
        import shapepy

        _sp = shapepy
    return _sp


# ---------------------------------------------------------------- builders
def tup(curve):
    """curve with tuple points (specs decoded from JSON have lists)"""
    return [[(p[0], p[1]) for p in seg] for seg in curve]


def jordan_from_curve(curve):
    S = sp()
    curve = tup(curve)
    if rg.curve_is_polygon(curve):
        return S.JordanCurve.from_vertices([seg[0] for seg in curve])
    return S.JordanCurve.from_ctrlpoints([list(seg) for seg in curve])


def simple_from_curve(curve):
    return sp().SimpleShape(jordan_from_curve(curve))


def build(spec):
    S = sp()
    k = spec["k"]
    if k == "empty":
        return S.EmptyShape()
    if k == "whole":
        return S.WholeShape()
    if k == "simple":
        return simple_from_curve(spec["curve"])
    if k == "connected":
        return S.ConnectedShape([simple_from_curve(c) for c in spec["curves"]])
    if k == "disjoint":
        return S.DisjointShape([build(p) for p in spec["parts"]])
    raise ValueError(k)


# ------------------------------------------------------------ spec -> model
def spec_region(spec) -> rg.Region:
    k = spec["k"]
    if k == "empty":
        return rg.Region.empty()
    if k == "whole":
        return rg.Region.whole()
    if k == "simple":
        return rg.Region.atom(tup(spec["curve"]))
    if k == "connected":
        cs = [rg.Region.atom(tup(c)) for c in spec["curves"]]
        r = cs[0]
        for c in cs[1:]:
            r = r & c
        return r
    if k == "disjoint":
        ps = [spec_region(p) for p in spec["parts"]]
        r = ps[0]
        for p in ps[1:]:
            r = r | p
        return r
    raise ValueError(k)


def spec_curves(spec):
    k = spec["k"]
    if k in ("empty", "whole"):
        return []
    if k == "simple":
        return [tup(spec["curve"])]
    if k == "connected":
        return [tup(c) for c in spec["curves"]]
    out = []
    for p in spec["parts"]:
        out += spec_curves(p)
    return out


def spec_moment(spec, a=0, b=0):
    """library convention: sum of the signed boundary integrals"""
    total = 0
    for c in spec_curves(spec):
        total = total + rg.curve_moment(c, a, b)
    return total


def spec_kind(spec) -> str:
    k = spec["k"]
    if k in ("empty", "whole"):
        return k
    area = spec_moment(spec)
    return k + ("+" if area > 0 else "-")


def spec_map(spec, fn):
    k = spec["k"]
    if k in ("empty", "whole"):
        return dict(spec)
    if k == "simple":
        return {"k": k, "curve": rg.curve_map(tup(spec["curve"]), fn)}
    if k == "connected":
        return {"k": k, "curves": [rg.curve_map(tup(c), fn) for c in spec["curves"]]}
    return {"k": k, "parts": [spec_map(p, fn) for p in spec["parts"]]}


def spec_invert(spec):
    """model complement as a spec (De Morgan on the constructors)"""
    k = spec["k"]
    if k == "empty":
        return {"k": "whole"}
    if k == "whole":
        return {"k": "empty"}
    raise ValueError("use Region for complements of composite specs")


# ------------------------------------------------------------ lib -> model
def num(x):
    """library number -> plain python number (np.float64 -> float)"""
    if isinstance(x, (int, Fraction)) and not isinstance(x, bool):
        return x
    return float(x)


def read_segment(segment):
    return [(num(p[0]), num(p[1])) for p in segment.ctrlpoints]


def read_jordan(jordan):
    return [read_segment(s) for s in jordan.segments]


def read_curves(shape):
    S = sp()
    if isinstance(shape, (S.EmptyShape, S.WholeShape)):
        return []
    return [read_jordan(j) for j in shape.jordans]


def kind_of(shape) -> str:
    S = sp()
    if shape is S.EmptyShape():
        return "empty"
    if shape is S.WholeShape():
        return "whole"
    if isinstance(shape, S.EmptyShape):
        return "empty(non-singleton)"
    if isinstance(shape, S.WholeShape):
        return "whole(non-singleton)"
    if isinstance(shape, S.SimpleShape):
        return "simple"
    if isinstance(shape, S.ConnectedShape):
        return "connected"
    if isinstance(shape, S.DisjointShape):
        return "disjoint"
    return type(shape).__name__


def structural_snapshot(shape):
    """values and types of every control point, in order (bit exact)"""
    S = sp()
    if isinstance(shape, (S.EmptyShape, S.WholeShape)):
        return kind_of(shape)
    out = []
    for j in shape.jordans:
        jj = []
        for s in j.segments:
            jj.append(tuple((type(p[0]).__name__, repr(p[0]),
                             type(p[1]).__name__, repr(p[1])) for p in s.ctrlpoints))
        out.append(tuple(jj))
    return (kind_of(shape), tuple(out))


def result_region_value(curves, p):
    """
    structure-free evaluation of a library result from its boundary curves
    only: chi(p) = sum_j wind(J_j, p) + c, with c = 1 iff the curves bound an
    unbounded region (some point has total winding -1).
    Returns (sum of windings at p).
    """
    return rg.curves_region_value(curves, p)


def unbounded_offset(curves):
    """
    c in {0, 1} such that chi = sum wind + c is the indicator of the region
    described by oriented boundary curves; None when the curves are not the
    boundary of a region (values outside {0,1} or {-1,0}).
    Decided from the orientation of the outermost curves: a region is
    unbounded iff some clockwise curve is not inside any other curve.
    """
    vals = set()
    for w in rg.witness_points(curves, max_per_seg=2):
        vals.add(rg.curves_region_value(curves, w))
    if vals <= {0, 1}:
        return 0, vals
    if vals <= {-1, 0}:
        return 1, vals
    return None, vals


def spec_valid(spec, margin_rel=0.01) -> bool:
    """
    the spec is a valid input of the direct constructors: Connected = one
    ccw curve containing pairwise-apart cw holes, or pairwise-apart cw
    curves; Disjoint = components with pairwise disjoint regions (an island
    may sit inside a hole).  Decided by the reference (exact for polygons).
    """
    k = spec["k"]
    if k in ("empty", "whole", "simple"):
        return True
    curves = spec_curves(spec)
    size = max(rg.curve_size(c) for c in curves)
    margin = margin_rel * size
    if k == "connected":
        areas = [rg.curve_area(c) for c in curves]
        pos = [i for i, a in enumerate(areas) if a > 0]
        if len(pos) > 1:
            return False
        for i in range(len(curves)):
            for j in range(i + 1, len(curves)):
                rel = rg.curves_relation(curves[i], curves[j], margin)
                if areas[i] > 0:
                    if rel != "B_in_A":
                        return False
                elif areas[j] > 0:
                    if rel != "A_in_B":
                        return False
                elif rel != "apart":
                    return False
        return True
    # disjoint: every part valid, no two curves of different parts touch,
    # and the regions do not overlap: checked on witness points
    for p in spec["parts"]:
        if not spec_valid(p, margin_rel):
            return False
    parts = spec["parts"]
    regions = [spec_region(p) for p in parts]
    for i in range(len(parts)):
        for j in range(i + 1, len(parts)):
            for ca in spec_curves(parts[i]):
                for cb in spec_curves(parts[j]):
                    if rg.curves_relation(ca, cb, margin) == "touch":
                        return False
            both = spec_curves(parts[i]) + spec_curves(parts[j])
            for c in both:
                for seg in c:
                    m = rg.bez_eval([rg.fl(q) for q in seg], 0.5)
                    n = None
                    d = rg.bez_eval(rg.bez_deriv([rg.fl(q) for q in seg]), 0.5)
                    nd = (d[0] ** 2 + d[1] ** 2) ** 0.5
                    if nd == 0:
                        continue
                    for sgn in (1, -1):
                        w = (m[0] + sgn * margin * 0.3 * d[1] / nd, m[1] - sgn * margin * 0.3 * d[0] / nd)
                        if regions[i].contains(w) and regions[j].contains(w):
                            return False
    return True
