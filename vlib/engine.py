"""
Driver: sharding over processes, collect-then-shrink, known findings,
replay files, evidence.  See DESIGN.md section 2.4.

A property module (vlib/props/cNN.py) exposes

    PROPERTY = "C16"
    RULE     = "text describing generation and the non-trivial rule"
    def parts(tier) -> list[Part]
    MANDATORY = ["stratum", ...]      (optional)

A Part couples a Hypothesis strategy (or a finite list of cases, marked
exhaustive) with a judge  judge(ctx, case) .  The judge evaluates the oracle
on one case and reports through ctx; it never raises for a violation of the
property.  Cases are plain data (dict/list/str/int/float/Fraction/bool/None)
so that they can be written to a replay file and judged again without
Hypothesis.
"""
from __future__ import annotations

import hashlib
import json
import multiprocessing as mp
import os
import random
import signal
import sys
import time
import traceback
from collections import Counter
from fractions import Fraction

VERIF_DIR = os.path.dirname(os.path.dirname(os.path.abspath(__file__)))
NPROC = int(os.environ.get("VERIF_NPROC", "16"))


# --------------------------------------------------------------------------
# JSON encoding of cases (Fractions as "n/d" strings, everything else native)
# --------------------------------------------------------------------------
def enc(obj):
    if isinstance(obj, Fraction):
        return "%d/%d" % (obj.numerator, obj.denominator)
    if isinstance(obj, bool) or obj is None or isinstance(obj, (int, str)):
        return obj
    if isinstance(obj, float):
        if obj != obj or obj in (float("inf"), float("-inf")):
            return {"__float__": repr(obj)}
        return obj
    if isinstance(obj, complex):
        return {"__complex__": [obj.real, obj.imag]}
    if isinstance(obj, bytes):
        return {"__bytes__": obj.decode("latin1")}
    if type(obj).__name__ == "Decimal":
        return {"__decimal__": str(obj)}
    if isinstance(obj, (list, tuple)):
        return [enc(x) for x in obj]
    if isinstance(obj, dict):
        return {str(k): enc(v) for k, v in obj.items()}
    return {"__repr__": repr(obj)}


def dec(obj):
    if isinstance(obj, str):
        if "/" in obj:
            head = obj.split("/")
            if len(head) == 2 and head[0].lstrip("-").isdigit() and head[1].isdigit():
                return Fraction(int(head[0]), int(head[1]))
        return obj
    if isinstance(obj, list):
        return [dec(x) for x in obj]
    if isinstance(obj, dict):
        if "__float__" in obj:
            return float(obj["__float__"])
        if "__complex__" in obj:
            return complex(*obj["__complex__"])
        if "__bytes__" in obj:
            return obj["__bytes__"].encode("latin1")
        if "__decimal__" in obj:
            import decimal

            return decimal.Decimal(obj["__decimal__"])
        return {k: dec(v) for k, v in obj.items()}
    return obj


def case_hash(case) -> str:
    blob = json.dumps(enc(case), sort_keys=True)
    return hashlib.sha1(blob.encode()).hexdigest()


# --------------------------------------------------------------------------
class Part:
    def __init__(self, name, judge, strategy=None, cases=None, n=None,
                 exhaustive=False, budget_s=None, shards=None):
        self.name = name
        self.judge = judge
        self.strategy = strategy
        self.cases = cases
        self.n = n
        self.exhaustive = exhaustive
        self.budget_s = budget_s
        self.shards = shards


class HangTimeout(BaseException):
    """raised by the per-call alarm (a hang of the code under test)"""


class call_limit:
    """context manager: raise HangTimeout if the body takes > seconds"""

    def __init__(self, seconds=120):
        self.seconds = seconds

    def _handler(self, signum, frame):
        raise HangTimeout("call exceeded %d s" % self.seconds)

    def __enter__(self):
        self.old = signal.signal(signal.SIGALRM, self._handler)
        signal.setitimer(signal.ITIMER_REAL, self.seconds)

    def __exit__(self, *exc):
        signal.setitimer(signal.ITIMER_REAL, 0)
        signal.signal(signal.SIGALRM, self.old)
        return False


class Ctx:
    """what a judge reports into (one per task = part x shard)"""

    def __init__(self, prop, part, tier, known=None):
        self.prop = prop
        self.part = part
        self.tier = tier
        self.known = known or []
        self.evaluations = 0
        self.nontrivial = set()
        self.counters = Counter()
        self.samples = []
        self.violations = []
        self.collect = True
        self._case = None

    # -- reporting API used by judges ------------------------------------
    def count(self, name, k=1):
        self.counters[name] += k

    def evaluated(self, case, nontrivial, strata=()):
        """one case whose oracle was evaluated"""
        self.evaluations += 1
        for s in strata:
            self.counters["stratum:" + s] += 1
        if nontrivial:
            h = case_hash(case)
            if h not in self.nontrivial:
                self.nontrivial.add(h)
                if len(self.samples) < 3:
                    self.samples.append(enc(case))

    def violation(self, sub, kind, case, detail, where="wrong-answer"):
        bucket = "%s|%s|%s" % (sub, kind, where)
        self.counters["violation:" + bucket] += 1
        if self.collect:
            # keep the smallest representative per bucket
            blob = json.dumps(enc(case), sort_keys=True)
            for v in self.violations:
                if v["bucket"] == bucket:
                    if len(blob) < v["size"]:
                        v.update(case=enc(case), detail=str(detail)[:2000],
                                 size=len(blob))
                    return
            self.violations.append(
                dict(bucket=bucket, part=self.part, case=enc(case),
                     detail=str(detail)[:2000], size=len(blob))
            )
        else:
            self.violations.append(dict(bucket=bucket, part=self.part,
                                        case=enc(case), detail=str(detail)[:2000],
                                        size=0))

    def excluded_known(self, kid):
        self.counters["excluded_known:" + kid] += 1

    def known_class(self, case, classes) -> bool:
        """True (and counted) when the case falls into the input class of an
        *open* known finding of this property; such cases are excluded by
        construction so that the search continues behind the finding"""
        for entry in self.known:
            pred = classes.get(entry.get("class"))
            if pred is not None and pred(case):
                self.excluded_known(entry["id"])
                return True
        return False


def innermost_shapepy_frame(exc) -> str:
    """'file:function' of the innermost frame inside shapepy (bucketing key)"""
    tb = exc.__traceback__
    where = "outside-shapepy"
    while tb is not None:
        fn = tb.tb_frame.f_code.co_filename
        if "shapepy" in fn or "pynurbs" in fn:
            where = "%s:%s" % (os.path.basename(fn), tb.tb_frame.f_code.co_name)
        tb = tb.tb_next
    return "%s@%s" % (type(exc).__name__, where)


# --------------------------------------------------------------------------
# worker
# --------------------------------------------------------------------------
def _load_prop(prop):
    import importlib

    return importlib.import_module("vlib.props.%s" % prop.lower())


def _task_seed(seed, part_index, shard):
    return (seed * 1000003 + part_index * 1009 + shard) % (2**31 - 1)


def _run_task(args):
    prop, tier, seed, part_index, shard, nshards, known = args
    t0 = time.time()
    try:
        mod = _load_prop(prop)
        part = mod.parts(tier)[part_index]
        ctx = Ctx(prop, part.name, tier, known)
        budget = part.budget_s
        if tier == "thorough" and budget is not None:
            # wall budget per part and shard in the thorough tier (seconds);
            # VERIF_THOROUGH_BUDGET=0 removes the cap (case counts then decide)
            cap = float(os.environ.get("VERIF_THOROUGH_BUDGET", "300"))
            budget = min(budget, cap) if cap > 0 else budget
        state = {"late": 0}

        def body(case):
            if budget is not None and time.time() - t0 > budget:
                state["late"] += 1
                return
            part.judge(ctx, case)

        if part.cases is not None:
            cases = part.cases() if callable(part.cases) else part.cases
            for i, case in enumerate(cases):
                if i % nshards == shard:
                    body(case)
        else:
            from hypothesis import HealthCheck, Phase, given, settings
            from hypothesis import seed as hseed

            n = max(1, (part.n + nshards - 1) // nshards)

            @settings(
                max_examples=n,
                database=None,
                deadline=None,
                derandomize=False,
                report_multiple_bugs=False,
                suppress_health_check=list(HealthCheck),
                phases=[Phase.generate],
            )
            @hseed(_task_seed(seed, part_index, shard))
            @given(part.strategy)
            def test(case):
                body(case)

            test()
        ctx.counters["budget_skipped"] += state["late"]
        return dict(
            ok=True, part=part.name, shard=shard,
            evaluations=ctx.evaluations, nontrivial=list(ctx.nontrivial),
            counters=dict(ctx.counters), samples=ctx.samples,
            violations=ctx.violations, wall=time.time() - t0,
        )
    except BaseException as exc:  # harness error, never a violation
        return dict(ok=False, part=str(part_index), shard=shard,
                    error="".join(traceback.format_exception(exc))[-4000:])


# --------------------------------------------------------------------------
# shrinking of one representative per unknown bucket
# --------------------------------------------------------------------------
def _shrink_task(args):
    prop, tier, seed, part_index, shard, nshards, bucket, fallback, max_s, known = args
    try:
        import hypothesis
        from hypothesis import HealthCheck, Phase, find, settings
        import hypothesis.internal.conjecture.engine as hce
        import hypothesis.internal.conjecture.shrinker as hcs

        hce.MAX_SHRINKING_SECONDS = max_s
        if hasattr(hcs, "MAX_SHRINKING_SECONDS"):
            hcs.MAX_SHRINKING_SECONDS = max_s
        mod = _load_prop(prop)
        part = mod.parts(tier)[part_index]
        if part.cases is not None:
            return dict(bucket=bucket, case=fallback, shrunk=False)
        n = max(1, (part.n + nshards - 1) // nshards)

        t_end = time.time() + (6 * max_s if tier == "quick" else 5 * max_s)

        def cond(case):
            if time.time() > t_end:
                return False  # shrinking budget used up: keep what we have
            ctx = Ctx(prop, part.name, tier, known)
            ctx.collect = False
            part.judge(ctx, case)
            return any(v["bucket"] == bucket for v in ctx.violations)

        # start from the recorded failing case: judge must reproduce it
        from hypothesis.reporting import with_reporter

        try:
          with with_reporter(lambda *a, **k: None):
            small = find(
                part.strategy, cond,
                settings=settings(
                    max_examples=n, database=None, deadline=None,
                    suppress_health_check=list(HealthCheck),
                    phases=[Phase.generate, Phase.shrink],
                    report_multiple_bugs=False,
                ),
                random=random.Random(_task_seed(seed, part_index, shard)),
            )
            return dict(bucket=bucket, case=enc(small), shrunk=True)
        except hypothesis.errors.NoSuchExample:
            return dict(bucket=bucket, case=fallback, shrunk=False)
    except BaseException as exc:
        return dict(bucket=bucket, case=fallback, shrunk=False,
                    error="".join(traceback.format_exception(exc))[-2000:])


# --------------------------------------------------------------------------
# known findings
# --------------------------------------------------------------------------
def load_known(prop):
    path = os.path.join(VERIF_DIR, "known_findings.json")
    if not os.path.exists(path):
        return []
    with open(path) as fh:
        data = json.load(fh)
    return [e for e in data.get("findings", [])
            if e.get("property") == prop and e.get("status") == "open"]


# --------------------------------------------------------------------------
# replay of one file (bypasses Hypothesis)
# --------------------------------------------------------------------------
def replay_file(prop, path, tier="quick", known=None):
    with open(path) as fh:
        data = json.load(fh)
    mod = _load_prop(prop)
    parts = {p.name: p for p in mod.parts(tier)}
    part = parts.get(data.get("part"))
    if part is None:
        raise RuntimeError("replay %s: unknown part %r" % (path, data.get("part")))
    ctx = Ctx(prop, part.name, tier, known if known is not None else [])
    ctx.collect = False
    ctx.replaying = True
    part.judge(ctx, dec(data["case"]))
    return ctx


# --------------------------------------------------------------------------
# main entry
# --------------------------------------------------------------------------
def run_property(prop, tier, seed, replay=None):
    t0 = time.time()
    from vlib import refgeom

    try:
        refgeom.selftest()
    except Exception:
        print("HARNESS-ERROR reference self-test failed")
        traceback.print_exc()
        return 2
    mod = _load_prop(prop)
    known = load_known(prop)

    if replay:
        ctx = replay_file(prop, replay, tier, known=[])
        if ctx.violations:
            for v in ctx.violations:
                print("  bucket=%s detail=%s" % (v["bucket"], v["detail"][:300]))
            print("VIOLATION property=%s replay=%s" % (prop, replay))
            return 1
        print("replay %s: property holds on this input" % replay)
        return 0

    # --- 1. replay tier: saved inputs -----------------------------------
    replayed = 0
    replay_viol = []
    known_lines = []
    rdir = os.path.join(VERIF_DIR, "replays")
    pinned = {os.path.normpath(os.path.join(VERIF_DIR, e["pinned_replay"])): e
              for e in known if e.get("pinned_replay")}
    if os.path.isdir(rdir):
        for name in sorted(os.listdir(rdir)):
            if not (name.startswith(prop + "-") and name.endswith(".json")):
                continue
            path = os.path.join(rdir, name)
            if name.startswith(prop + "-new-"):
                continue  # written by an earlier failing run; not a regression input
            try:
                ctx = replay_file(prop, path, tier, known=[])
            except Exception:
                print("HARNESS-ERROR replay of %s failed" % path)
                traceback.print_exc()
                return 2
            replayed += 1
            entry = pinned.get(os.path.normpath(path))
            if ctx.violations:
                if entry is not None:
                    known_lines.append(
                        "KNOWN-FINDING: property=%s %s" % (prop, entry["what"])
                    )
                else:
                    replay_viol.append((path, ctx.violations[0]))
    # --- 2. generated search ---------------------------------------------
    parts = mod.parts(tier)
    tasks = []
    for pi, part in enumerate(parts):
        nshards = part.shards or NPROC
        if part.cases is None and part.n is not None:
            # Hypothesis starts every run with its simplest examples: keep
            # at least 20 examples per shard so that shards are not trivial
            # (an explicit Part.shards is honoured: slow parts need the cores)
            if part.shards:
                nshards = max(1, min(part.shards, part.n))
            else:
                nshards = max(1, min(nshards, part.n // 20 or 1))
        for sh in range(nshards):
            tasks.append((prop, tier, seed, pi, sh, nshards, known))
    ctxm = mp.get_context("fork")
    with ctxm.Pool(min(NPROC, max(1, len(tasks)))) as pool:
        results = pool.map(_run_task, tasks, chunksize=1)
    errors = [r for r in results if not r["ok"]]
    if errors:
        print("HARNESS-ERROR in %d task(s); first:" % len(errors))
        print(errors[0]["error"])
        return 2
    evaluations = sum(r["evaluations"] for r in results)
    nontrivial = set()
    counters = Counter()
    samples = []
    per_part = {}
    buckets = {}
    for r, t in zip(results, tasks):
        nontrivial.update(r["nontrivial"])
        counters.update(r["counters"])
        pp = per_part.setdefault(r["part"], dict(evaluations=0, nontrivial=0, wall_max=0.0))
        pp["evaluations"] += r["evaluations"]
        pp["nontrivial"] += len(r["nontrivial"])
        pp["wall_max"] = max(pp["wall_max"], round(r["wall"], 1))
        for s in r["samples"]:
            if sum(1 for x in samples if x["part"] == r["part"]) < 2:
                samples.append(dict(part=r["part"], case=s))
        for v in r["violations"]:
            cur = buckets.get(v["bucket"])
            if cur is None or v["size"] < cur[0]["size"]:
                buckets[v["bucket"]] = (v, t)
    # --- 3. shrink one representative per bucket, write replay files ------
    viol_lines = []
    max_s = 20 if tier == "quick" else 120
    shrink_args = []
    for bucket, (v, t) in sorted(buckets.items()):
        shrink_args.append((prop, tier, seed, t[3], t[4], t[5], bucket, v["case"], max_s, known))
    shrunk = []
    if shrink_args:
        with ctxm.Pool(min(NPROC, len(shrink_args))) as pool:
            shrunk = pool.map(_shrink_task, shrink_args, chunksize=1)
    os.makedirs(rdir, exist_ok=True)
    for (bucket, (v, t)), s in zip(sorted(buckets.items()), shrunk):
        h = hashlib.sha1((bucket + json.dumps(s["case"], sort_keys=True)).encode()).hexdigest()[:10]
        path = os.path.join(rdir, "%s-new-%s.json" % (prop, h))
        with open(path, "w") as fh:
            json.dump(dict(property=prop, part=v["part"], bucket=bucket,
                           detail=v["detail"], shrunk=s["shrunk"], seed=seed,
                           tier=tier, case=s["case"]), fh, indent=1, sort_keys=True)
        rel = os.path.relpath(path, VERIF_DIR)
        viol_lines.append((bucket, rel, v["detail"]))
    for path, v in replay_viol:
        viol_lines.append((v["bucket"], os.path.relpath(path, VERIF_DIR), v["detail"]))
    # --- 4. mandatory strata ----------------------------------------------
    missing = []
    for s in getattr(mod, "MANDATORY", []):
        if counters.get("stratum:" + s, 0) == 0:
            missing.append(s)
    # --- 5. evidence -------------------------------------------------------
    wall = time.time() - t0
    exhaustive_parts = [p.name for p in parts if p.exhaustive]
    coverage = dict(
        evaluations=int(evaluations),
        distinct_nontrivial=len(nontrivial),
        rule=mod.RULE,
        samples=samples[:8],
        strata={k[8:]: v for k, v in sorted(counters.items()) if k.startswith("stratum:")},
        counters={k: v for k, v in sorted(counters.items())
                  if not k.startswith("stratum:") and not k.startswith("violation:")},
        per_part=per_part,
        exhaustive_parts=exhaustive_parts,
        exhaustive=bool(parts) and len(exhaustive_parts) == len(parts),
        replayed=replayed,
        known_findings_reported=known_lines,
        violation_buckets={k[10:]: v for k, v in counters.items() if k.startswith("violation:")},
        constants=getattr(mod, "CONSTANTS", {}),
        budget_exhausted=bool(counters.get("budget_skipped", 0)),
        mandatory_strata_without_case=missing,
    )
    evidence = dict(
        property_id=prop, tier=tier, seed=int(seed), level=getattr(mod, "LEVEL", "exploration"),
        coverage=coverage,
        assumptions=getattr(mod, "ASSUMPTIONS", [
            "reference geometry in vlib/refgeom.py (self-tested at start of run)",
            "CPython Fraction arithmetic", "Hypothesis used for generation and shrinking only",
        ]),
        wall_s=round(wall, 2), violations=len(viol_lines),
    )
    # (VERIF_EVIDENCE_DIR redirects the file when the checks are pointed at a
    # seeded change, so that committed evidence only ever describes /repo)
    evdir = os.environ.get("VERIF_EVIDENCE_DIR") or os.path.join(VERIF_DIR, "evidence")
    os.makedirs(evdir, exist_ok=True)
    with open(os.path.join(evdir, prop + ".json"), "w") as fh:
        json.dump(evidence, fh, indent=1, sort_keys=True)
    # --- 6. verdict ---------------------------------------------------------
    for line in known_lines:
        print(line)
    print("%s tier=%s seed=%d evaluations=%d distinct_nontrivial=%d wall=%.1fs"
          % (prop, tier, seed, evaluations, len(nontrivial), wall))
    if viol_lines:
        for bucket, rel, detail in viol_lines:
            print("  bucket=%s" % bucket)
            print("  detail=%s" % detail[:400].replace("\n", " | "))
            print("VIOLATION property=%s replay=%s" % (prop, rel))
        return 1
    if missing:
        if counters.get("budget_skipped", 0):
            # the time budget cut the run short (loaded machine): inconclusive
            # for these strata, said so in the evidence, not an error
            print("WARNING budget exhausted before these strata received a case: %s" % ", ".join(missing))
        else:
            print("HARNESS-ERROR mandatory strata without a case: %s" % ", ".join(missing))
            return 2
    if len(nontrivial) < 2:
        print("HARNESS-ERROR fewer than 2 non-trivial cases")
        return 2
    return 0
