"""
Shared machinery of the operator properties (C01, C05, C06, C12, and the
stateful ones): operand pairs / programs, configuration classes, query
points, evaluation of library results.
"""
from __future__ import annotations

import math

from fractions import Fraction as F

from hypothesis import strategies as st

from . import lib, probes
from . import refgeom as rg
from . import strategies as S
from .engine import call_limit, innermost_shapepy_frame

OPS = ["-", "&", "|", "^"]

# conditioning constants for float / curved operands (DESIGN 2.3)
MARGIN_CURVED = 2e-4   # query margin for curved operands (degree reduction of short pieces)
MIN_SIN = 0.2          # crossing angle
MIN_KAPPA = 1e-2       # |A'| |B'| sin(theta) at a crossing (library skips Newton steps below 1e-6 on its square)
MIN_SEP_REL = 1e-2     # crossings at least this far apart (x size)
MIN_VERTEX_REL = 1e-3  # no vertex of one operand this close to the other boundary


# ------------------------------------------------------------------ applying
def build_operand(spec, pre=None):
    """
    library object for a spec.  With `pre` = {"v": [vx, vy], "s": factor}
    (rational polygons only, where move/scale are exact) the object is first
    built displaced and scaled, asked a few questions (which warms whatever
    the library caches), and then brought into place with the library's own
    in-place move/scale: the operand an operator sees then has a history, as
    in real use, while the model is unchanged.
    """
    if not pre or spec["k"] in ("empty", "whole"):
        return lib.build(spec)
    curves = lib.spec_curves(spec)
    if not all(rg.curve_is_exact(c) and rg.curve_is_polygon(c) for c in curves):
        return lib.build(spec)
    vx, vy = pre["v"]
    f = F(pre.get("s", 1))
    there = lib.spec_map(spec, lambda p: ((p[0] + vx) * f, (p[1] + vy) * f))
    obj = lib.build(there)
    Sp = lib.sp()
    _ = (vx, vy) in obj
    obj.box()
    float(obj)
    for j in obj.jordans:
        float(j)
        j.box()
    Sp.IntegrateShape.polynomial(obj, 1, 0)
    Sp.IntegrateShape.polynomial(obj, 0, 1)
    # a shape-in-shape and a curve-in-shape question (they look at the boxes of
    # the sub-shapes) and an intersection of the first boundary with itself
    probe = Sp.Primitive.square(1, ((vx + F(1, 3)) * f, (vy + F(1, 7)) * f))
    _ = probe in obj
    _ = obj in probe
    _ = probe.jordans[0] in obj
    for sub in getattr(obj, "subshapes", []):
        sub.box()
        for subsub in getattr(sub, "subshapes", []):
            subsub.box()
    if f != 1:
        obj.scale(1 / f, 1 / f)
    obj.move(-vx, -vy)
    return obj


def apply_op(op, A, B):
    if op == "|":
        return A | B
    if op == "&":
        return A & B
    if op == "-":
        return A - B
    if op == "^":
        return A ^ B
    if op == "+":
        return A + B
    if op == "*":
        return A * B
    raise ValueError(op)


def model_op(op, RA, RB):
    if op in ("|", "+"):
        return RA | RB
    if op in ("&", "*"):
        return RA & RB
    if op == "-":
        return RA - RB
    if op == "^":
        return RA ^ RB
    raise ValueError(op)


def eval_program(prog, shapes):
    """prog: ['atom', i] | ['~', p] | [op, p, q]; shapes: list of library shapes"""
    k = prog[0]
    if k == "atom":
        return shapes[prog[1]]
    if k in ("~", "neg"):
        x = eval_program(prog[1], shapes)
        return ~x if k == "~" else -x
    return apply_op(k, eval_program(prog[1], shapes), eval_program(prog[2], shapes))


def model_program(prog, regions):
    k = prog[0]
    if k == "atom":
        return regions[prog[1]]
    if k in ("~", "neg"):
        return ~model_program(prog[1], regions)
    return model_op(k, model_program(prog[1], regions), model_program(prog[2], regions))


def program_str(prog):
    k = prog[0]
    if k == "atom":
        return "S%d" % prog[1]
    if k in ("~", "neg"):
        return ("~" if k == "~" else "-") + program_str(prog[1])
    return "(%s %s %s)" % (program_str(prog[1]), k, program_str(prog[2]))


# --------------------------------------------------------- configuration
def classify_pair(ca, cb):
    """
    relation of the boundary curves of two operands:
      'general'    boundaries are disjoint or cross transversally, well
                   conditioned (always the case for exact polygons without
                   contact)
      'contact'    a vertex of one lies on the other boundary / collinear
                   overlap (polygons, exact) -- other than identical curves
      'identical'  every touching pair of curves is the same curve
      'ill'        float / curved crossing below the conditioning thresholds
    and the number of crossings.
    """
    ncross = 0
    verdict = "general"
    for A in ca:
        for B in cb:
            polyg = rg.curve_is_polygon(A) and rg.curve_is_polygon(B)
            exact = polyg and rg.curve_is_exact(A) and rg.curve_is_exact(B)
            ba, bb = rg.curve_box(A), rg.curve_box(B)
            if not rg._boxes_overlap([float(x) for x in ba], [float(x) for x in bb], pad=1e-9):
                continue
            if _same_curve(A, B):
                if verdict == "general":
                    verdict = "identical"
                continue
            if polyg:
                ea = [(rg.exp(s[0]), rg.exp(s[1])) for s in A]
                eb = [(rg.exp(s[0]), rg.exp(s[1])) for s in B]
                for (a, b) in ea:
                    for (c, d) in eb:
                        r = rg.segments_intersect_exact(a, b, c, d)
                        if r is None:
                            continue
                        if r[0] != "point" or r[1] in (0, 1) or r[2] in (0, 1):
                            return "contact", ncross
                        ncross += 1
                        if not exact:
                            # float polygons: crossing must not be within
                            # rounding of a vertex, nor nearly parallel
                            if min(r[1], 1 - r[1], r[2], 1 - r[2]) < F(1, 10**6):
                                return "ill", ncross
                            da, db = rg.fl(rg.sub(b, a)), rg.fl(rg.sub(d, c))
                            sin = abs(rg.cross(da, db)) / (rg.norm(da) * rg.norm(db))
                            if sin < 1e-3:
                                return "ill", ncross
                continue
            size = max(rg.curve_size(A), rg.curve_size(B))
            try:
                crs = rg.curve_curve_crossings(A, B)
            except rg.Degenerate:
                return "ill", ncross
            pts = rg.distinct_crossing_points(crs, 1e-7 * size)
            ncross += len(pts)
            for c in crs:
                if c["sin"] < MIN_SIN or c["da"] * c["db"] * c["sin"] < MIN_KAPPA:
                    return "ill", ncross
                if min(float(c["t"]), 1 - float(c["t"]), float(c["u"]), 1 - float(c["u"])) < 1e-3:
                    return "ill", ncross
            for i in range(len(pts)):
                for j in range(i + 1, len(pts)):
                    if rg.dist(pts[i], pts[j]) < MIN_SEP_REL * size:
                        return "ill", ncross
            if len(pts) % 2 == 1:
                return "ill", ncross
            # no vertex / sample of one close to the other without crossing
            for X, Y in ((A, B), (B, A)):
                for seg in X:
                    sf = [rg.fl(q) for q in seg]
                    for k in range(0, 8):
                        p = rg.bez_eval(sf, k / 8.0)
                        if any(rg.dist(p, q) < 0.05 * size for q in pts):
                            continue
                        if not rg.curve_clear(Y, p, MIN_VERTEX_REL * size):
                            return "ill", ncross
    return verdict, ncross


ABS_POINT_TOL = 1e-6  # PlanarCurve.__contains__ of the library (absolute)


def _pt_seg_dist(v, a, b):
    dx, dy = b[0] - a[0], b[1] - a[1]
    L = dx * dx + dy * dy
    t = 0.0 if L == 0 else max(0.0, min(1.0, ((v[0] - a[0]) * dx + (v[1] - a[1]) * dy) / L))
    return math.hypot(a[0] + t * dx - v[0], a[1] + t * dy - v[1])


def abs_near_contact(ca, cb, factor=2.0):
    """exact polygons in general position of which a vertex (or a crossing
    point) comes closer than the library's *absolute* point-on-curve
    tolerance to the other boundary / to another crossing point without
    touching it: drawings in small units.  Floats are enough here (the
    threshold is 2e-6, the data of size >= 1e-4)."""
    tol = factor * ABS_POINT_TOL
    for A in ca:
        for B in cb:
            if not (rg.curve_is_polygon(A) and rg.curve_is_polygon(B)):
                continue
            fa = [(rg.fl(sg[0]), rg.fl(sg[1])) for sg in A]
            fb = [(rg.fl(sg[0]), rg.fl(sg[1])) for sg in B]
            ba, bb = rg.curve_box(A), rg.curve_box(B)
            if not rg._boxes_overlap([float(x) for x in ba], [float(x) for x in bb], pad=tol):
                continue
            for X, Y in ((fa, fb), (fb, fa)):
                for (v, _) in X:
                    for (a, b) in Y:
                        d = _pt_seg_dist(v, a, b)
                        if 0 < d < tol:
                            return True
            crossings = []
            for sg in A:
                for sh in B:
                    r = rg.segments_intersect_exact(rg.exp(sg[0]), rg.exp(sg[1]), rg.exp(sh[0]), rg.exp(sh[1]))
                    if r is not None and r[0] == "point":
                        crossings.append(rg.fl(r[3]))
            for i in range(len(crossings)):
                for j in range(i + 1, len(crossings)):
                    if 0 < rg.dist(crossings[i], crossings[j]) < tol:
                        return True
    return False


def _same_curve(A, B):
    """same point set by construction: equal segment lists up to rotation
    and reversal (exact comparison of control points)"""
    if len(A) != len(B):
        return False
    key = lambda c: [tuple((float(p[0]), float(p[1])) for p in s) for s in c]
    ka = key(A)
    for cand in (B, rg.curve_reverse(B)):
        kb = key(cand)
        for r in range(len(kb)):
            if kb[r:] + kb[:r] == ka:
                return True
    return False


def min_segment_length(curves):
    best = float("inf")
    for c in curves:
        for s in c:
            best = min(best, rg.dist(s[0], s[-1]))
    return best


# ------------------------------------------------------------ query points
def query_points(curves_all, us, curved, max_witness=60):
    """points with their tags; every point is later filtered by clearance"""
    pts = []
    try:
        ws = rg.witness_points(curves_all, max_per_seg=3)
    except rg.Degenerate:
        ws = []
    if len(ws) > max_witness:
        step = len(ws) / float(max_witness)
        ws = [ws[int(i * step)] for i in range(max_witness)]
    pts += [(rg.fl(w), "witness") for w in ws]
    pts += [(p, "uniform") for p in probes.uniform_points(curves_all, us)]
    pts += [(p, "far") for p in probes.far_points(curves_all)[:2]]
    pts += [(p, "near") for p in probes.near_boundary_points(curves_all, us, max_segs=6)]
    if curved:
        pts += [(p, "sagitta") for p in probes.sagitta_points(curves_all, max_segs=4, us=us)]
    return pts


class ResultView:
    """a library result observed through `in` and through its boundary
    curves only (structure-free evaluation)"""

    def __init__(self, shape):
        self.shape = shape
        self.kind = lib.kind_of(shape)
        self.curves = lib.read_curves(shape) if self.kind not in ("empty", "whole") else []
        self.atoms = [rg.Atom(c) for c in self.curves]
        self._offset = None

    def member(self, p):
        if self.kind == "empty":
            return False
        if self.kind == "whole":
            return True
        return p in self.shape

    def offset(self):
        """1 when the boundary curves describe an unbounded region: decided
        by the orientation of the outermost curve (largest |area|)"""
        if self._offset is None:
            if not self.atoms:
                self._offset = 1 if self.kind == "whole" else 0
            else:
                # a far point has winding 0 about every curve: it belongs to
                # the region iff the region is unbounded iff total area < 0
                total = sum(float(a.area) for a in self.atoms)
                self._offset = 1 if total < 0 else 0
        return self._offset

    def chi(self, p):
        """indicator from the boundary curves alone; None if not 0/1"""
        if not self.atoms:
            return self.kind == "whole"
        v = sum(a.winding(p) for a in self.atoms) + self.offset()
        if v in (0, 1):
            return bool(v)
        return None

    def clear(self, p, margin):
        return all(a.clear(p, margin) for a in self.atoms)


# ------------------------------------------------------------------ strategies
@st.composite
def operand_pair(draw, curved=False, kinds=None, nk=None):
    if curved:
        nkk, deg = draw(st.sampled_from([("float", (1, 2)), ("float", (2,)), ("float", (1, 2, 3)), ("float", (3,)), ("float", (2, 3))]))
    else:
        nkk, deg = (nk or draw(st.sampled_from(S.NUMKINDS))), (1,)
    R = S.base_radius(nkk)
    if curved and draw(st.integers(0, 3)) == 0:
        # "lens" family: two blobs of 3-4 purely curved arcs that overlap, so
        # that A & B (and the hole of A ^ B) is bounded by exactly two arcs
        dg = (2,) if draw(st.booleans()) else (3,)
        a = {"k": "simple", "curve": draw(S.star_curve("float", (0.0, 0.0), 0.7 * R, R, (3, 4), dg, draw(st.integers(0, 5)) == 0))}
        ang = draw(st.floats(0, 6.283))
        dist_ = R * draw(st.sampled_from([0.9, 1.1, 1.3]))
        import math as _m

        off = (dist_ * _m.cos(ang), dist_ * _m.sin(ang))
        b = {"k": "simple", "curve": draw(S.star_curve("float", off, 0.7 * R, R, (3, 4), dg, False))}
        us = draw(st.lists(st.floats(0.0, 1.0), min_size=12, max_size=12))
        return {"a": a, "b": b, "config": "lens", "us": us, "nk": "float", "deg": list(dg)}
    # Empty / Whole operands are the trivial short-cuts: one draw in ten
    kinds = kinds or (S.KINDS[2:] * 3 + S.KINDS[:2])
    a = draw(S.shape_spec(nkk, deg, kinds=kinds, templates=not curved))
    config = draw(st.sampled_from(["cross", "cross", "cross", "nested", "apart"]))
    if config == "cross":
        off = (draw(st.floats(-1.0, 1.0)) * R, draw(st.floats(-1.0, 1.0)) * R)
        rb = R * draw(st.sampled_from([0.5, 0.8, 1.0, 1.3]))
    elif config == "nested":
        off = (draw(st.floats(-0.2, 0.2)) * R, draw(st.floats(-0.2, 0.2)) * R)
        rb = R * draw(st.sampled_from([0.2, 0.35, 2.2, 3.0]))
    else:
        off = (2.6 * R * draw(st.sampled_from([-1, 1])), draw(st.floats(-1.0, 1.0)) * R)
        rb = R
    if nkk in ("int", "mixed"):
        off = (float(round(off[0])), float(round(off[1])))
    # a lattice shift of B by a drawn fraction makes exact contact unlikely
    b = draw(S.shape_spec(nkk, deg, center=off, R=rb, kinds=kinds, templates=False))
    us = draw(st.lists(st.floats(0.0, 1.0), min_size=12, max_size=12))
    out = {"a": a, "b": b, "config": config, "us": us, "nk": nkk, "deg": list(deg)}
    if nkk in ("int", "frac") and draw(st.integers(0, 2)) == 0:
        # operands with a history: built elsewhere, queried, moved into place
        out["pre_a"] = {"v": [draw(st.integers(-40, 40)), draw(st.integers(-40, 40))], "s": draw(st.sampled_from([1, 1, 2, F(1, 2)]))}
        out["pre_b"] = {"v": [draw(st.integers(-40, 40)), draw(st.integers(-40, 40))], "s": draw(st.sampled_from([1, 1, 3]))}
    return out


@st.composite
def program(draw, natoms, depth=3):
    """read-once expression tree over atoms 0..natoms-1 (each used once)"""
    idx = list(range(natoms))

    def build(ids, d):
        if len(ids) == 1:
            node = ["atom", ids[0]]
        else:
            k = draw(st.integers(1, len(ids) - 1))
            node = [draw(st.sampled_from(OPS)), build(ids[:k], d + 1), build(ids[k:], d + 1)]
        if draw(st.integers(0, 4)) == 0:
            node = [draw(st.sampled_from(["~", "neg"])), node]
        return node

    return build(draw(st.permutations(idx)), 0)
