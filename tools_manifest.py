#!/venv/bin/python
"""Regenerates MANIFEST.json from the table below (kept valid at all times)."""
import json, os
HERE = os.path.dirname(os.path.abspath(__file__))
props = [json.loads(l) for l in open(os.path.join(HERE, "properties.jsonl"))]
ids = [p["id"] for p in props]

CLAIMED = {
 "C16": dict(
   technique="property-based testing (Hypothesis): generated factory parameters vs closed-form oracles; exhaustive invalid-argument grid",
   text="Generated-input search over factory parameters of every numeric kind with closed-form oracles (vertices, area, orientation, membership, circle band and area formula) plus an exhaustively enumerated grid of invalid arguments; shows the property on the cases explored, never its absence of violations elsewhere.",
   note="Trusted: closed forms in vlib/props/c16.py, reference geometry self-tested at start-up, CPython Fractions. One open known finding (tiny arcs are degree-reduced) is excluded by an input predicate and replayed.",
   ref="4/C16"),
 "C02": dict(
   technique="property-based testing (Hypothesis): generated shapes of every kind x derived query points vs reference winding number (exact crossing number / de Casteljau subdivision)",
   text="Generated shapes of every kind, orientation, numeric type and degree 1..3 with query points aimed at the places where the implementation can go wrong (sagitta of curved segments, +-1e-2..1e-4 from the boundary, far points, vertices and on-edge points for the boundary rule); membership is compared with an independent reference. Exploration: holds on tens of thousands of (shape, point) cases per run, margins stated.",
   note="Trusted: vlib/refgeom.py winding (self-tested), margins 1e-5 (10x the documented on-curve tolerance); points closer than that and not on the boundary are undecided, never judged.",
   ref="4/C02"),
 "C04": dict(
   technique="property-based testing (Hypothesis): generated shapes x exponent pairs vs exact polynomial boundary integrals of a reference model",
   text="Generated shapes of every kind (non-symmetric, away from the origin, holes, several components, curved boundaries) and exponent pairs up to a+b=6 (8 thorough); the library's integrals are compared with exact rational polynomial integration (exact equality and rational type for rational polygons; stated tolerances for floats and for quadrature of curved boundaries; convergence with raised nnodes).",
   note="Trusted: vlib/refgeom.py curve_moment (cross-checked against the fan-triangulation formula at start-up). Quadrature tolerance 5e-3 of the absolute contributions is a measured bound (factor 10 above the worst observed), only applied for a+b<=4.",
   ref="4/C04"),
 "C13": dict(
   technique="property-based testing (Hypothesis): rational inputs vs exact Fraction reference (stored coordinates, crossing vertices and parameters, transforms, split); differential run under Python 3.11",
   text="Generated rational coordinates with denominators straddling 1e9, rational polygon pairs in general position with big prime denominators, rational move/scale/split, Primitive.square/triangle/regular_polygon(4) with rational side and centre; every stored value is compared with the exact rational (or its documented cap) and type-checked; Point2D storage is also executed under Python 3.11 by loading polygon.py by path.",
   note="Trusted: exact line-line solver of the reference. Only Point2D can be crossed over Python versions (pynurbs/matplotlib exist only for 3.12). One open known finding (intermediate capping) excluded by an input predicate.",
   ref="4/C13"),
 "C18": dict(
   technique="property-based testing (Hypothesis) plus exhaustive per-degree basis identity in exact Fractions; de Casteljau reference",
   text="Exhaustive identity check of the memoised evaluation/derivative matrices for degrees 1..6 (p+1 rational parameters per basis function, exact), then generated segments of every numeric kind: evaluation, derivatives, split re-parameterisation, box, point-on-curve for regular segments, off-curve points at >= 2e-6, winding contribution vs subtended angle.",
   note="Trusted: de Casteljau evaluation and subdivision angle of vlib/refgeom.py. One open known finding (projection misses points on zig-zag control polygons of degree >= 3) excluded by an input predicate; rational point-on-curve queries on curved rational segments are not issued (5-20 s each in the library).",
   ref="4/C18"),
 "C14": dict(
   technique="property-based testing (Hypothesis): generated curve pairs in crossing/nested/apart/identical/shared-edge configurations vs an independent crossing finder (exact line-line, subdivision + Newton polish)",
   text="Generated pairs of closed curves (degrees 1..3, every numeric kind) and all flag combinations; reported tuples are checked for range and soundness, completeness and uniqueness against the reference crossings, swap symmetry, (None,None) encoding, flag filtering, parity. Exact for rational polygons; curved pairs judged only when the reference says every crossing is well conditioned.",
   note="Trusted: refgeom.seg_seg_crossings (self-tested). Float contacts exactly at a segment end and curved crossings with sin(theta) < 0.2 (open finding D17) are not judged for completeness.",
   ref="4/C14"),
 "C15": dict(
   technique="property-based testing (Hypothesis): generated curves x split-parameter multisets x clean/second round vs a model of the curve as generated (de Casteljau re-parameterisation)",
   text="Generated closed curves with rational/float split parameters including near-0/1, repeated and several per segment, then clean() and a second split/clean round; pieces must retrace the original, junctions lie on it at the split parameter, area/orientation unchanged, no zero-length piece, clean idempotent and restoring the original segmentation when no piece is in the degree-reduction regime.",
   note="Trusted: de Casteljau sub-curves of the reference; the degree-reduction regime is decided from the piece's highest difference with a band of undecided cases. Three open known findings (absolute parallel test on tiny segments, pynurbs overflow when re-uniting rational cubics, close parameters now fixed) are excluded by input predicates.",
   ref="4/C15"),
 "C03": dict(
   technique="property-based testing (Hypothesis): generated ordered pairs of shapes in five relation families vs an exact witness-point subset oracle",
   text="Generated ordered pairs over all kind pairs (scaled copies, independent, sub-collections, notch family, inscribed with all vertices on the boundary, singletons); `B in A`, contains_shape, A in A, the consequences for | and &, and contains_jordan with both boundary flags are compared with a witness-point decision that is exact for polygons (offsets shrunk until the exact segment test says the witness lies in the adjacent face).",
   note="Trusted: refgeom.witness_points / exact polygon predicates. Curved pairs are judged with witnesses at 1e-6*size kept only when clear of every boundary; float contact configurations are not generated (undecidable).",
   ref="4/C03"),
 "C17": dict(
   technique="property-based testing (Hypothesis): one generated closed-curve description rendered through all four constructors, compared pairwise and against the model; generated malformed chains must raise",
   text="Generated closed curves (polygons of every numeric kind, uniform degree 2/3, mixed degrees) built with from_vertices, from_segments, from_ctrlpoints and from_full_curve; segments, vertices, box, signed length, area, orientation and pairwise == are compared with the model; malformed chains (gap, not closing, string, non-curve) must raise.",
   note="Trusted: the model description itself and refgeom area/length; from_full_curve is compared with 1e-9 tolerance because it passes through pynurbs arithmetic.",
   ref="4/C17"),
 "C01": dict(
   technique="property-based testing (Hypothesis): generated operand pairs and read-once operator programs vs boolean algebra over reference memberships; result observed through `in` and through a structure-free winding evaluation of its boundary curves",
   text="Generated operands of every kind and orientation (rational/float polygons incl. non-convex, curved degree 1..3) in crossing/nested/apart configurations with | & - ^ + * ~ - and nested programs over 3-4 atoms; the result region is compared point-wise with the model on witness points of every face of the arrangement plus uniform, far, near-boundary and sagitta points, both through `p in R` and through the winding numbers of R's boundary curves; any exception or call over 120 s on a judged (transversal, well-conditioned) case is a violation.",
   note="Trusted: vlib/refgeom.py (winding, exact polygon predicates, crossing finder used for conditioning). Two open known findings (operands in contact; xor of crossing float/curved operands) are excluded by input predicates and counted; float/curved crossings below the stated conditioning thresholds are skipped and counted.",
   ref="4/C01"),
 "C05": dict(
   technique="property-based testing (Hypothesis): metamorphic measure identities on operator results of generated operand pairs and programs, with the operands' own moments tied to the exact reference integral",
   text="For generated operand pairs (all kinds, rational/float polygons, curved) and programs, the moments up to order 2 of A|B, A&B, A-B, A^B, ~A computed from separately built fresh operands must satisfy inclusion-exclusion; exact Fraction equality where the reference's exact crossings are representable below the 1e9 cap, 1e-9 otherwise, 1e-5 for float/curved (with node counts that make the quadrature exact).",
   note="Trusted: the exact line-line solver (to decide the exact regime) and refgeom.curve_moment for the operands. The two operator findings (contact, xor of crossing float/curved operands) are excluded by the same input predicates as in C01.",
   ref="4/C05"),
 "C06": dict(
   technique="property-based testing (Hypothesis): validity predicate over every operator result (winding numbers on witness points of the result's own boundary arrangement), singleton laws on generated shapes, exhaustive kind tables over a fixed zoo",
   text="Every result of the C01 operand pairs is checked for closed chains, no zero-length pieces, weak simplicity of every boundary, Connected/Disjoint structure and singleton identity for geometrically empty/whole results; the documented laws S|~S, S&~S, S-S, S^S, S^~S are checked for identity with the singletons on generated S of every kind incl. curved; the kind tables of the docs are enumerated exhaustively over an 8x8 zoo x 4 operators and ~.",
   note="Trusted: refgeom witness points and winding numbers. Contacts at isolated points are allowed (xor of crossing shapes touches itself); crossings/overlaps are what the predicate rejects. Same excluded classes as C01.",
   ref="4/C06"),
 "C12": dict(
   technique="property-based testing (Hypothesis): metamorphic relation under generated similarity maps applied to the model's control points, combined with the reference membership oracle",
   text="The C01 operand pairs under generated similarities (exact quarter turns, rational factors 1e-3..1e5 and translations for rational polygons - all judged; arbitrary angles, log-uniform factors and translations up to 1e5/1e6 for float and curved): membership of T(p) in T(A) op T(B) against the model, kind of the result with and without T, area scaling, invariance of containment.",
   note="Trusted: reference membership and witness subset oracle. Float/curved configurations that are well conditioned as drawn but fall below the absolute conditioning thresholds after T are the open finding KF-C12-abs-tolerance (D16): excluded by an input predicate, counted, pinned replay is the property text's circle/square example.",
   ref="4/C12"),
 "C07": dict(
   technique="property-based testing (Hypothesis): families of representations equal by construction and of shapes different by construction; == / != checked for truth, bool type, reflexivity, symmetry, transitivity",
   text="For generated shapes of every kind: rotated start vertices, inserted collinear vertices, curved segments split where the model says no piece is degree-reduced, int/Fraction/float renderings, permuted components/holes, copies (must all be ==), and moved vertex / reversed orientation / translated hole or component of equal area / other kind (must be !=); also on the boundary JordanCurves including mixed degrees.",
   note="Trusted: the construction itself (truth known by construction; spec validity of moved holes/components decided exactly by the reference).",
   ref="4/C07"),
 "C09": dict(
   technique="property-based testing (Hypothesis): generated transformation sequences and their inverses applied to library shapes and, independently, to the model's control points",
   text="Generated shapes of every kind with sequences of 1-6 move/scale/rotate calls (both call forms, anisotropic factors, radians and degrees) and the inverse sequence; after every step: same object returned, control points equal to the model's (exact with rational types for rational move/scale), then area, moments, signed boundary length, membership of transformed points, restoration by the inverse and == with a fresh original.",
   note="Trusted: the affine maps applied to the model (plain arithmetic) and the C04 reference integrals.",
   ref="4/C09"),
 "C19": dict(
   technique="property-based testing (Hypothesis): generated valid member lists (validated exactly by the reference) through the direct constructors vs the model region, all permutations, and the operator-built counterpart",
   text="ConnectedShape / DisjointShape built directly from generated valid lists (holes, unbounded, islands, curved, equal-area members, Empty entries) are compared with the model (membership on witness points, area, moments, complement), across permutations of the list, and with the shape built by operators (library == both ways), including families of 3-5 strictly nested rings whose rings are operator-built too; ~~X and copy(X) answer like X; collapse rules of DisjointShape are checked including independence of the single-member copy.",
   note="Trusted: reference membership/moments and lib.spec_valid (exact for polygons).",
   ref="4/C19"),
 "C20": dict(
   technique="property-based testing (Hypothesis): generated shapes plotted on an Agg figure; the produced matplotlib paths are parsed and compared piece by piece with the boundary segments",
   text="For generated shapes of every kind with degree 1..3 segments the patches added to the axes are parsed (LINETO/CURVE3/CURVE4) and each piece is compared with the corresponding Bezier segment at 5 parameters; patch counts per component/boundary, closure, fill vs hole-in-background colouring, Empty/Whole behaviour and immutability of the shape are checked.",
   note="Trusted: matplotlib's documented path codes; the vertex stored with CLOSEPOLY is ignored by matplotlib and not inspected.",
   ref="4/C20"),
 "C08": dict(
   technique="property-based testing (Hypothesis): generated operation histories followed by an in-place mutation; exact snapshots of operands and results before/after (model of the operands as generated)",
   text="Generated operand pairs (every short-cut path and recombination), 1-2 operations out of all operators, queries, copies, plot and constructors, then move/scale/rotate/invert of the result or of an operand: operands must still carry their boundary (same curves, orientation, exact area, re-split vertices on the original curve) and the bit-exact structural snapshot of every other object must not change when one is mutated.",
   note="Trusted: exact on-segment predicate of the reference; capped crossing vertices (denominator > 1e8) may be off an edge by 1e-15.",
   ref="4/C08"),
 "C10": dict(
   technique="property-based testing (Hypothesis): generated operation histories (lists of steps shrunk as one value) with a differential oracle against fresh twins (deepcopy and rebuild from control points); sub-process differentials over PYTHONHASHSEED and warm/cold memo tables",
   text="Histories of in-place transformations, operators between bundle members (operands re-split and reused), complements, clean/split and queries; after every step the touched objects must answer area, signed lengths, box and membership exactly like a deepcopy and like an object rebuilt from their current control points, asking twice gives identical answers, and at the end also ==, containment and an operator with a third shape agree; two operands in general position go as the same two objects through 2-4 operators / containment questions and every answer is compared with operands built afresh for that one question (and that with the model region); digests of all answers are byte-identical across fresh interpreters with hash seeds 0/1/2 and warm memo tables.",
   note="Trusted: nothing but the library itself on a fresh object (differential); histories whose operators raise (contact configurations created by reusing results) end there and are counted.",
   ref="4/C10"),
 "C11": dict(
   technique="property-based testing with fault injection (Hypothesis draws operands, operation and crash points; sys.settrace raises a BaseException at the k-th internal call); exhaustive invalid-argument grid for the in-place transformations",
   category="fault_enumeration",
   text="Crash points are the Python call boundaries inside shapepy/pynurbs during an operation, counted by a dry run; Hypothesis selects them (half inside the dynamic extent of in-place mutations such as invert/split/clean/segments setter) and the injector raises there, as a KeyboardInterrupt or test timeout would; afterwards every operand must carry its original boundary and answer area/membership as before. Invalid arguments of move/scale/rotate are enumerated exhaustively: a rejected call leaves the control points bit-identical.",
   note="Granularity: call boundaries of Python frames (what the property names), not every bytecode. About 2 300 fired injections per quick run, thousands per thorough run: sampled, not exhaustive, except the invalid-argument grid.",
   ref="4/C11"),
}
NOT_YET = "check not built yet in this round (planned, see DESIGN.md section 4); nothing is claimed for it"

checks = []
for pid in ids:
    if pid not in CLAIMED:
        continue
    c = CLAIMED[pid]
    checks.append(dict(
        property_id=pid,
        quick_cmd="/venv/bin/python run_check.py %s --tier quick" % pid,
        thorough_cmd="/venv/bin/python run_check.py %s --tier thorough" % pid,
        evidence_file="evidence/%s.json" % pid,
        replay_cmd_template="/venv/bin/python run_check.py %s --replay {path}" % pid,
        engine="pbt-driver",
        level_claimed=dict(category=c.get("category", "exploration"), text=c["text"], design_ref=c["ref"]),
        level_note=c["note"],
        technique=c["technique"],
    ))
manifest = dict(
    version=1,
    setup_cmd="/venv/bin/python -c 'import hypothesis' 2>/dev/null || /venv/bin/pip install --no-index --find-links /opt/veriftools/wheels hypothesis",
    hooks=dict(guard="SHAPEPY_VERIF", enable="none needed: checks observe the public API and inject faults with sys.settrace; shapepy is imported from /repo/src",
               baseline_off_cmd="cd /repo && /venv/bin/python -m pytest -q -p no:cacheprovider --timeout=900",
               source_commits=[], add_only=True),
    engines=[dict(name="pbt-driver", path="run_check.py", serves_properties=sorted(CLAIMED),
                  kind_free_text="Hypothesis strategies + reference-geometry oracles, sharded over 16 processes, collect-then-shrink, replay files, known-findings file")],
    checks=checks,
    notes="All checks: exit 0 held / exit 1 with VIOLATION line / exit 2 harness error. VERIF_SEED and VERIF_TIER are honoured. known_findings.json lists recorded and fixed defects.",
    not_applicable=[dict(property_id=pid, reason=NOT_YET) for pid in ids if pid not in CLAIMED],
)
json.dump(manifest, open(os.path.join(HERE, "MANIFEST.json"), "w"), indent=1)
print("claimed", len(checks), "not_applicable", len(manifest["not_applicable"]))
