import sys, json; sys.path.insert(0,'/verif'); sys.path.insert(0,'/repo/src')
from vlib import lib, engine, refgeom as rg, opcases as oc
d=json.load(open(sys.argv[1])); case=engine.dec(d['case'])
print(d['bucket']); print(d['detail'][:300])
if 'specs' in case:
    specs=case['specs']; print(oc.program_str(case['prog']))
else:
    specs=[case['a'],case['b']]; print('op',case['op'], case.get('config'))
for s in specs:
    print(lib.spec_kind(s), [[(float(x[0][0]),float(x[0][1])) for x in c] for c in lib.spec_curves(s)])
if 'specs' not in case:
    print(oc.classify_pair(lib.spec_curves(specs[0]), lib.spec_curves(specs[1])))
    A,B=lib.build(specs[0]),lib.build(specs[1])
    R=oc.apply_op(case['op'],A,B)
    print('result', lib.kind_of(R))
    for c in lib.read_curves(R): print('  ', float(rg.curve_area(c)), [(float(s[0][0]),float(s[0][1])) for s in c])
