import sys,time,faulthandler; sys.path.insert(0,'/verif'); sys.path.insert(0,'/repo/src')
faulthandler.dump_traceback_later(int(sys.argv[2]) if len(sys.argv)>2 else 100, exit=True)
import importlib
from vlib.engine import Ctx, _task_seed
from hypothesis import given, settings, HealthCheck, seed, Phase
prop=sys.argv[1]; mod=importlib.import_module('vlib.props.'+prop.lower())
pi=int(sys.argv[3]) if len(sys.argv)>3 else 0
sh=int(sys.argv[4]) if len(sys.argv)>4 else 0
part=mod.parts('quick')[pi]
@settings(max_examples=40, database=None, deadline=None, suppress_health_check=list(HealthCheck), phases=[Phase.generate])
@seed(_task_seed(1,pi,sh))
@given(part.strategy)
def t(case):
    ctx=Ctx(prop,part.name,'quick')
    t0=time.time(); part.judge(ctx,case)
    print(round(time.time()-t0,2), str(case)[:100], ctx.evaluations, len(ctx.violations), flush=True)
t()
