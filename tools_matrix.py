#!/venv/bin/python
"""
Collects the results of `tools_seeded.py checks` runs (JSON files given on the
command line or /tmp/sx/eval*_*.json) into seeded/kill_matrix.json and prints
the markdown table used in DESIGN.md section 8.  Later files override earlier
ones for the same (seeded change, property) pair.
"""
import glob
import json
import os
import re
import sys

HERE = os.path.dirname(os.path.abspath(__file__))
files = sys.argv[1:] or sorted(glob.glob("/tmp/sx/eval*_*.json"), key=os.path.getmtime)
matrix = {}
for f in files:
    base = os.path.basename(f)
    m = re.match(r"eval(\d*)_(S-)?(C\d\d)(?:[-_]([abcd]))?\.json", base)
    if not m:
        continue
    rnd, _, pid, wave = m.groups()
    sid = "S-%s-%s" % (pid, wave or "a")
    try:
        data = json.load(open(f))
    except Exception:
        continue
    for prop, res in data.items():
        matrix.setdefault(sid, {})[prop] = dict(
            caught=res["rc"] == 1, rc=res["rc"], wall_s=res["wall_s"],
            first=(res["first"][0].strip() if res["first"] else ""), source=base)
json.dump(matrix, open(os.path.join(HERE, "seeded", "kill_matrix.json"), "w"), indent=1, sort_keys=True)
print("| seeded change | breaks | own check | other checks run | first bucket reported |")
print("|---|---|---|---|---|")
for sid in sorted(matrix):
    pid = sid[2:5]
    row = matrix[sid]
    own = row.get(pid)
    others = ", ".join("%s %s" % (p, "caught" if r["caught"] else "missed") for p, r in sorted(row.items()) if p != pid)
    print("| %s | %s | %s | %s | %s |" % (sid, pid, ("caught (%ds)" % own["wall_s"]) if own and own["caught"] else ("MISSED" if own else "-"),
                                      others or "-", (own or {}).get("first", "")[:90].replace("|", "/")))
