#!/venv/bin/python
"""
Single entry point of the verification machinery.

    run_check.py <Cxx> [--tier quick|thorough] [--replay FILE]

exit 0  property held on everything explored
exit 1  violation (one line  VIOLATION property=<id> replay=<path>  each)
exit 2  harness error (never a verdict about the code under test)
"""
import argparse
import os
import shutil
import sys

HERE = os.path.dirname(os.path.abspath(__file__))


def main():
    ap = argparse.ArgumentParser()
    ap.add_argument("prop")
    ap.add_argument("--tier", default=os.environ.get("VERIF_TIER", "quick"),
                    choices=["quick", "thorough"])
    ap.add_argument("--replay", default=None)
    ap.add_argument("--seed", type=int, default=None)
    args = ap.parse_args()
    seed = args.seed if args.seed is not None else int(os.environ.get("VERIF_SEED", "1") or 1)

    if os.environ.get("SHAPEPY_VERIF_CHILD") != "1":
        # fresh interpreter: fixed hash seed, private bytecode cache so that
        # the sources on disk *now* are what gets compiled (DESIGN 2.5)
        cache = os.path.join(HERE, ".cache", "pyc-%d" % os.getpid())
        os.makedirs(cache, exist_ok=True)
        env = dict(os.environ)
        env.update(
            SHAPEPY_VERIF_CHILD="1",
            PYTHONHASHSEED="0",
            PYTHONPYCACHEPREFIX=cache,
            PYTHONWARNINGS="ignore",
            MPLBACKEND="Agg",
            MPLCONFIGDIR=os.path.join(cache, "mpl"),
            OMP_NUM_THREADS="1",
            OPENBLAS_NUM_THREADS="1",
        )
        import subprocess

        try:
            rc = subprocess.call([sys.executable, os.path.abspath(__file__)] + sys.argv[1:], env=env)
        finally:
            shutil.rmtree(cache, ignore_errors=True)
        sys.exit(rc)

    sys.path.insert(0, HERE)
    repo_src = os.environ.get("SHAPEPY_SRC", "/repo/src")
    if repo_src not in sys.path:
        sys.path.insert(0, repo_src)
    try:
        from vlib import engine

        rc = engine.run_property(args.prop.upper(), args.tier, seed, replay=args.replay)
    except SystemExit:
        raise
    except BaseException:
        import traceback

        print("HARNESS-ERROR unexpected exception in the driver")
        traceback.print_exc()
        rc = 2
    sys.stdout.flush()
    sys.exit(rc)


if __name__ == "__main__":
    main()
