#!/venv/bin/python
"""find a generated case on which a judge reports a violation whose bucket
contains a substring, with all known-finding exclusions switched off
(used to pin replays of known findings).   tools_find.py C05 0 xor out.json"""
import sys, json, os
sys.path.insert(0, os.path.dirname(os.path.abspath(__file__))); sys.path.insert(0, os.environ.get("SHAPEPY_SRC", "/repo/src"))
import importlib
from vlib.engine import Ctx, enc
from hypothesis import given, settings, HealthCheck, seed, Phase
prop, pi, pat, out = sys.argv[1], int(sys.argv[2]), sys.argv[3], sys.argv[4]
sd = int(sys.argv[5]) if len(sys.argv) > 5 else 7
mod = importlib.import_module('vlib.props.' + prop.lower())
part = mod.parts('quick')[pi]
class Found(Exception): pass
@settings(max_examples=400, database=None, deadline=None, suppress_health_check=list(HealthCheck), phases=[Phase.generate])
@seed(sd)
@given(part.strategy)
def t(case):
    ctx = Ctx(prop, part.name, 'quick', known=[]); ctx.collect = False
    part.judge(ctx, case)
    for v in ctx.violations:
        if pat in v['bucket']:
            json.dump({"property": prop, "part": part.name, "note": v['bucket'] + ' :: ' + v['detail'][:300], "case": v['case']}, open(out, 'w'), indent=1)
            raise Found()
try:
    t(); print('nothing found')
except Found:
    print('written', out)
