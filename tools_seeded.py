#!/venv/bin/python
"""
Evaluate a seeded change (patch.diff + demo.py) against the checks without
touching /repo: the patch is applied to a scratch copy of /repo's working
tree under /tmp and the checks are pointed at it with SHAPEPY_SRC.

  tools_seeded.py confirm <dir>          tests pass + demo fails with / passes without the patch
  tools_seeded.py checks  <dir> C01 C05  run the given quick checks against the patched copy
"""
import json
import os
import shutil
import subprocess
import sys
import time

HERE = os.path.dirname(os.path.abspath(__file__))
PY = "/venv/bin/python"


def scratch(name, patch=None):
    root = "/tmp/sx/mut/%s-%d" % (name, os.getpid())
    shutil.rmtree(root, ignore_errors=True)
    os.makedirs(root)
    for item in ("src", "tests", "pytest.ini"):
        src = os.path.join("/repo", item)
        dst = os.path.join(root, item)
        if os.path.isdir(src):
            shutil.copytree(src, dst, ignore=shutil.ignore_patterns("__pycache__", "*.egg-info"))
        else:
            shutil.copy(src, dst)
    if patch:
        res = subprocess.run(["patch", "-p1", "-i", patch], cwd=root, capture_output=True, text=True)
        if res.returncode != 0:
            raise SystemExit("patch does not apply: %s %s" % (res.stdout, res.stderr))
    return root


def env_for(root):
    env = dict(os.environ)
    env["PYTHONPATH"] = os.path.join(root, "src")
    env["PYTHONDONTWRITEBYTECODE"] = "1"
    env["MPLBACKEND"] = "Agg"
    return env


def confirm(d):
    name = os.path.basename(os.path.normpath(d))
    patch = os.path.abspath(os.path.join(d, "patch.diff"))
    demo = os.path.abspath(os.path.join(d, "demo.py"))
    out = {}
    clean = scratch(name + "-clean")
    r = subprocess.run([PY, demo], cwd=clean, env=env_for(clean), capture_output=True, text=True, timeout=1800)
    out["demo_without_patch_rc"] = r.returncode
    mut = scratch(name, patch)
    r = subprocess.run([PY, demo], cwd=mut, env=env_for(mut), capture_output=True, text=True, timeout=1800)
    out["demo_with_patch_rc"] = r.returncode
    out["demo_with_patch_tail"] = (r.stdout + r.stderr)[-600:]
    t0 = time.time()
    r = subprocess.run([PY, "-m", "pytest", "-q", "-p", "no:cacheprovider", "--timeout=900", "-x"], cwd=mut, env=env_for(mut),
                       capture_output=True, text=True, timeout=3600)
    out["tests_rc"] = r.returncode
    out["tests_tail"] = r.stdout.strip().splitlines()[-1] if r.stdout.strip() else r.stderr[-300:]
    out["tests_wall_s"] = round(time.time() - t0, 1)
    shutil.rmtree(clean, ignore_errors=True)
    shutil.rmtree(mut, ignore_errors=True)
    out["confirmed"] = out["demo_without_patch_rc"] == 0 and out["demo_with_patch_rc"] != 0 and out["tests_rc"] == 0
    return out


def checks(d, props, seed="1", tier="quick", nproc=None):
    name = os.path.basename(os.path.normpath(d))
    patch = os.path.abspath(os.path.join(d, "patch.diff"))
    mut = scratch(name + "-chk", patch)
    res = {}
    for p in props:
        env = dict(os.environ, SHAPEPY_SRC=os.path.join(mut, "src"), VERIF_SEED=str(seed), VERIF_EVIDENCE_DIR="/tmp/sx/evidence")
        if nproc:
            env["VERIF_NPROC"] = str(nproc)
        t0 = time.time()
        r = subprocess.run([PY, os.path.join(HERE, "run_check.py"), p, "--tier", tier], cwd=HERE, env=env, capture_output=True, text=True, timeout=7200)
        lines = [l for l in r.stdout.splitlines() if l.startswith("VIOLATION") or l.strip().startswith("bucket=") or l.startswith("HARNESS")]
        res[p] = dict(rc=r.returncode, wall_s=round(time.time() - t0, 1), first=[l[:300] for l in lines[:4]])
        # replay files written by this run are evidence of the mutant, not of the tree
        for f in os.listdir(os.path.join(HERE, "replays")):
            if f.startswith(p + "-new-"):
                os.remove(os.path.join(HERE, "replays", f))
    shutil.rmtree(mut, ignore_errors=True)
    return res


if __name__ == "__main__":
    cmd, d = sys.argv[1], sys.argv[2]
    if cmd == "confirm":
        print(json.dumps(confirm(d), indent=1))
    else:
        print(json.dumps(checks(d, sys.argv[3:]), indent=1))
